#!/bin/bash
# try_seed.sh <seed dir> <PROP> [tier] : apply the seeded change to /repo, run the property's check, undo
d=$1; prop=$2; tier=${3:-quick}
cd /verif
git -C /repo diff --quiet || { echo "/repo is dirty"; exit 2; }
git -C /repo apply $(realpath $d/patch.diff) || { echo "patch does not apply"; exit 2; }
./check $prop --tier $tier --jobs ${JOBS:-6} > $d/check-$tier.log 2>&1; rc=$?
git -C /repo checkout -- .
echo "rc=$rc" >> $d/check-$tier.log
grep -E "^(VIOLATION|KNOWN|INCONCLUSIVE|OK|rc=)" $d/check-$tier.log | cut -c1-220
