#!/usr/bin/env python3
"""Regenerate the staged copy of /repo's *working tree* that Kani compiles.

The staged copy is /repo verbatim except for the closed list of mechanical
environment-model substitutions S1..S3 (DESIGN.md section 1.2).  Every run re-derives it
from the current sources; files are rewritten only when their content changed so that
cargo's fingerprinting rebuilds exactly what changed.

usage: stage.py <repo> <dest>          -> prints a JSON summary on stdout
exit 0 ok, exit 2 staging failed closed.
"""
import hashlib
import json
import os
import re
import sys

COLL = "verif_collections"
MODEL_NAMES = {"HashMap", "HashSet"}


def die(msg):
    print(f"stage: FAIL-CLOSED: {msg}", file=sys.stderr)
    sys.exit(2)


USE_BRACE = re.compile(r"^(\s*)(pub\s+)?use std::collections::\{([^}]*)\};", re.M)
USE_ONE = re.compile(r"^(\s*)(pub\s+)?use std::collections::(HashMap|HashSet);", re.M)


def subst_collections(text, stats):
    """S1: std/ahash hash containers -> verif_collections."""
    n0 = stats["s1"]

    def brace(m):
        ind, pub, names = m.group(1), m.group(2) or "", m.group(3)
        names = [n.strip() for n in names.split(",") if n.strip()]
        mod = [n for n in names if n in MODEL_NAMES]
        rest = [n for n in names if n not in MODEL_NAMES]
        if not mod:
            return m.group(0)
        stats["s1"] += 1
        out = f"{ind}{pub}use {COLL}::{{{', '.join(mod)}}};"
        if rest:
            out += f" {pub}use std::collections::{{{', '.join(rest)}}};"
        return out

    text = USE_BRACE.sub(brace, text)

    def one(m):
        stats["s1"] += 1
        return f"{m.group(1)}{m.group(2) or ''}use {COLL}::{m.group(3)};"

    text = USE_ONE.sub(one, text)
    for a, b in (
        ("use ahash::AHashMap;", f"use {COLL}::HashMap as AHashMap;"),
        ("use ahash::AHashSet;", f"use {COLL}::HashSet as AHashSet;"),
        ("use std::collections::hash_map::Entry;", f"use {COLL}::hash_map::Entry;"),
    ):
        c = text.count(a)
        if c:
            stats["s1"] += c
            text = text.replace(a, b)
    # fully-qualified paths in expressions / types
    for name in ("HashMap", "HashSet"):
        pat = re.compile(r"\bstd::collections::" + name + r"\b")
        text, c = pat.subn(f"{COLL}::{name}", text)
        stats["s1"] += c
    # anything left that names a hash container by another route -> fail closed
    for bad in (r"\bahash::AHashMap\b", r"\bahash::AHashSet\b", r"\bhashbrown::", r"use ahash::\{"):
        if re.search(bad, text):
            die(f"unhandled hash-container path matching {bad!r}")
    return text, stats["s1"] != n0


def subst_memchr(text, stats):
    """S4: memchr::memchr (SSE2 vector code that Kani would have to model instruction by instruction;
    function stubs do not reach it because the #[inline] wrapper is already inlined in the callers' MIR)
    -> verif_collections::naive_memchr, a linear scan with the same contract."""
    text, c = re.subn(r"\bmemchr::memchr\(", COLL + "::naive_memchr(", text)
    stats["s4"] += c
    if re.search(r"\bmemchr::(memchr[23]|memrchr|memmem)\b", text) or re.search(r"use memchr\b", text):
        die("unhandled memchr entry point")
    return text


def disable_intree_kani(text, stats):
    """S2: the repository's own `#[cfg(kani)] mod kani_proofs` does not compile."""
    pat = re.compile(r"#\[cfg\(kani\)\]\s*\n(\s*)mod kani_proofs")
    text, c = pat.subn(r"#[cfg(any())]\n\1mod kani_proofs", text)
    stats["s2"] += c
    return text


def extract_fn(text, name):
    """Return the source text of `fn name(...) ... { body }` (brace matched)."""
    m = re.search(r"^[ \t]*(?:pub(?:\([a-z]+\))?\s+)?(?:async\s+)?fn\s+" + re.escape(name) + r"\b", text, re.M)
    if not m:
        return None
    i = text.index("{", m.end())
    depth, j = 0, i
    in_str = False
    while j < len(text):
        ch = text[j]
        if in_str:
            if ch == "\\":
                j += 1
            elif ch == '"':
                in_str = False
        else:
            if ch == '"':
                in_str = True
            elif ch == "'" and re.match(r"'(\\.|[^\\'])'", text[j:j + 4]):
                j += len(re.match(r"'(\\.|[^\\'])'", text[j:j + 4]).group(0)) - 1
            elif ch == "/" and text[j:j + 2] == "//":
                j = text.index("\n", j)
                continue
            elif ch == "{":
                depth += 1
            elif ch == "}":
                depth -= 1
                if depth == 0:
                    return text[m.start():j + 1]
        j += 1
    return None


def s3_collectors(src_text, stats):
    """S3: text extraction of the synchronous decision procedures of OptimizedConnectionHandler into
    free functions over `&mut BytesMut` (function text copied verbatim, `self.buffer` rebound).
    (a) the batch collectors; (b) the parsing prefix of try_fast_get / try_fast_set (everything up to and
    including the `split_to` that consumes the frame); (c) the two conditions under which run() answers
    the commands a collector has consumed. Fails closed if a body touches any other field of `self`."""
    out = ["\n// ---- S3: generated by /verif/stage/stage.py (verbatim bodies, self.buffer rebound) ----\n"]
    for name in ("collect_get_keys", "collect_set_pairs"):
        f = extract_fn(src_text, name)
        if f is None:
            die(f"S3: fn {name} not found in connection_optimized.rs")
        fields = set(re.findall(r"\bself\.([a-zA-Z_][a-zA-Z0-9_]*)", f))
        if fields - {"buffer"}:
            die(f"S3: {name} uses self fields {sorted(fields)} (only `buffer` is modelled)")
        sig_end = f.index("{")
        sig = f[:sig_end]
        body = f[sig_end:]
        sig = re.sub(r"^[ \t]*(?:pub(?:\([a-z]+\))?\s+)?fn\s+" + name, f"pub fn verif_{name}", sig, flags=re.M)
        sig2, c = re.subn(r"\(\s*&mut self\s*,?", "(buffer: &mut bytes::BytesMut, ", sig, count=1)
        if c != 1:
            die(f"S3: {name} does not take &mut self")
        sig2 = sig2.replace("(buffer: &mut bytes::BytesMut, )", "(buffer: &mut bytes::BytesMut)")
        body = re.sub(r"\bself\.buffer\b", "(*buffer)", body)
        out.append("#[allow(dead_code, unused_mut, clippy::all)]\n" + sig2 + body + "\n")
        stats["s3"] += 1
    # (b) fast-path parsing prefixes
    for name, ret, tail in (("try_fast_get", "(bytes::Bytes, usize)", "Ok((key, total_needed))"),
                            ("try_fast_set", "(bytes::Bytes, bytes::Bytes, usize)", "Ok((key, value, total_needed))")):
        f = extract_fn(src_text, name)
        if f is None:
            die(f"S3: fn {name} not found")
        marker = "let _ = self.buffer.split_to(total_needed);"
        if f.count(marker) != 1:
            die(f"S3: {name}: consume marker not found exactly once")
        body = f[f.index("{"):f.index(marker) + len(marker)]
        fields = set(re.findall(r"\bself\.([a-zA-Z_][a-zA-Z0-9_]*)", body))
        if fields - {"buffer"}:
            die(f"S3: {name} parsing prefix uses self fields {sorted(fields)}")
        if ".await" in body:
            die(f"S3: {name} parsing prefix awaits")
        body, n1 = re.subn(r"return FastPathResult::NeedMoreData;", "return Err(1);", body)
        body, n2 = re.subn(r"return FastPathResult::NotFastPath;", "return Err(2);", body)
        if "FastPathResult" in body:
            die(f"S3: {name}: unhandled FastPathResult use in the parsing prefix")
        body = re.sub(r"\bself\.buffer\b", "(*buffer)", body)
        out.append("#[allow(dead_code, unused_mut, clippy::all)]\npub fn verif_%s_parse(buffer: &mut bytes::BytesMut) -> Result<%s, u8> %s\n        %s\n    }\n"
                   % (name[4:], ret, body, tail))
        stats["s3"] += 1
    # (c) admission conditions in run()
    run = extract_fn(src_text, "run")
    if run is None:
        die("S3: fn run not found")
    conds = []
    for call, var in (("let (get_keys, get_count) = self.collect_get_keys();", "get_count"),
                      ("let (set_pairs, set_count) = self.collect_set_pairs();", "set_count")):
        if run.count(call) != 1:
            die(f"S3: run(): `{call}` not found exactly once")
        rest = run[run.index(call) + len(call):]
        m = re.match(r"\s*(?://[^\n]*\n\s*)*if ([^{]*?)\s*\{", rest)
        if not m:
            die(f"S3: run(): no `if` directly after `{call}`")
        cond = m.group(1)
        idents = set(re.findall(r"[A-Za-z_][A-Za-z0-9_]*", cond))
        if not idents <= {var, "batch_threshold"}:
            die(f"S3: run(): admission condition `{cond}` mentions {sorted(idents)}")
        conds.append(cond)
    out.append("#[allow(dead_code, unused_variables, clippy::all)]\npub fn verif_batch_admitted(get_count: usize, set_count: usize, batch_threshold: usize) -> (bool, bool) {\n    ((%s), (%s))\n}\n" % (conds[0], conds[1]))
    stats["s3"] += 1
    return "".join(out)


def s5_wal_threshold(src_text, stats):
    """S5: the stamp threshold that recover_with_wal() hands to WalRotator::recover_entries_after is computed
    inside an async fn after an await; its statements are copied into a synchronous function of the
    RecoveredState. Fails closed if the computation touches anything but `recovered`."""
    f = extract_fn(src_text, "recover_with_wal")
    if f is None:
        die("S5: fn recover_with_wal not found")
    a = "let mut recovered = self.recover().await?;"
    b = ".recover_entries_after("
    if f.count(a) != 1 or f.count(b) != 1:
        die("S5: recover_with_wal no longer has the expected shape")
    region = f[f.index(a) + len(a):f.index(b)]
    cut = region.rfind("let ")
    if cut < 0:
        die("S5: no `let` before recover_entries_after")
    region = region[:cut]
    i = f.index(b) + len(b)
    depth, j = 1, i
    while depth > 0:
        depth += {"(": 1, ")": -1}.get(f[j], 0)
        j += 1
    arg = f[i:j - 1]
    if re.search(r"\bself\b|\.await|wal_rotator", region + arg):
        die("S5: threshold computation uses more than `recovered`")
    stats["s5"] += 1
    return ("\n// ---- S5: generated by /verif/stage/stage.py (statements copied from recover_with_wal) ----\n"
            "#[allow(dead_code, unused_variables, clippy::all)]\npub fn verif_wal_replay_threshold(recovered: &RecoveredState) -> u64 {"
            + region + "\n    (" + arg + ") as u64\n}\n")



def split_match_arms(body):
    """split the text between the braces of a `match` into arms [(pattern, expr)] (depth-0 `=>` and `,`)."""
    arms, i, n = [], 0, len(body)

    def skip_ws_comments(i):
        while i < n:
            if body[i].isspace():
                i += 1
            elif body.startswith("//", i):
                i = body.index("\n", i) + 1
            else:
                break
        return i

    def scan(i, stop):
        """advance to the first depth-0 occurrence of one of the stop strings; returns (index, which)"""
        depth = 0
        while i < n:
            ch = body[i]
            if ch == '"':
                i += 1
                while body[i] != '"':
                    i += 2 if body[i] == "\\" else 1
            elif ch == "'" and re.match(r"'(\\.|[^\\'])'", body[i:i + 4]):
                i += len(re.match(r"'(\\.|[^\\'])'", body[i:i + 4]).group(0)) - 1
            elif body.startswith("//", i):
                i = body.index("\n", i)
            elif ch in "([{":
                depth += 1
            elif ch in ")]}":
                depth -= 1
            elif depth == 0:
                for st in stop:
                    if body.startswith(st, i):
                        return i, st
            i += 1
        return n, None

    while True:
        i = skip_ws_comments(i)
        if i >= n:
            break
        j, st = scan(i, ["=>"])
        if st is None:
            die("S6: match arm without `=>`")
        pat = body[i:j].strip()
        k = skip_ws_comments(j + 2)
        if body[k] == "{":
            depth, e = 0, k
            while True:
                e2, _ = scan(e + 1, ["}"]) if False else (None, None)
                break
            # brace-matched block
            depth, e = 0, k
            while e < n:
                ch = body[e]
                if ch == '"':
                    e += 1
                    while body[e] != '"':
                        e += 2 if body[e] == "\\" else 1
                elif ch == "'" and re.match(r"'(\\.|[^\\'])'", body[e:e + 4]):
                    e += len(re.match(r"'(\\.|[^\\'])'", body[e:e + 4]).group(0)) - 1
                elif body.startswith("//", e):
                    e = body.index("\n", e)
                elif ch == "{":
                    depth += 1
                elif ch == "}":
                    depth -= 1
                    if depth == 0:
                        break
                e += 1
            expr = body[k:e + 1]
            i = skip_ws_comments(e + 1)
            if i < n and body[i] == ",":
                i += 1
        else:
            e, st = scan(k, [","])
            expr = body[k:e].strip()
            i = e + 1
        arms.append((pat, expr))
    return arms


S6_ALPHABET = ["Ping", "Get", "Set", "SetNx", "Append", "StrLen", "Incr", "Decr", "IncrBy", "DecrBy", "Del", "Exists", "TypeOf", "Expire", "Ttl",
               "LPush", "RPush", "LPop", "RPop", "LLen", "SAdd", "SRem", "SCard", "HSet", "HGet", "HDel", "HLen",
               "Multi", "Exec", "Discard", "Watch", "Unwatch"]


def s6_small_dispatch(src_text, stats):
    """S6: CommandExecutor::execute with its final `match cmd` restricted to the arms of a fixed command alphabet
    (every statement before the match - counters, transaction queueing - and the text of the kept arms are copied
    verbatim; every other arm becomes a panic). The 200-arm match is what made symbolic execution through
    execute() run out of memory; harnesses substitute this function for execute() (Kani function stub), so that
    EXEC's replay loop, which calls self.execute(), goes through it too."""
    f = extract_fn(src_text, "execute")
    if f is None:
        die("S6: fn execute not found in executor/mod.rs")
    idx = f.rfind("\n        match cmd {")
    if idx < 0 or f.count("\n        match cmd {") < 1:
        die("S6: execute() has no top-level `match cmd`")
    head = f[:idx]
    mstart = f.index("{", idx + 1 + len("        match cmd ")) 
    # the match is the tail expression: its closing brace is the one before the function's closing brace
    tail = f[mstart + 1:]
    end = tail.rstrip()
    if not end.endswith("}"):
        die("S6: unexpected end of execute()")
    end = end[:-1].rstrip()
    if not end.endswith("}"):
        die("S6: the `match cmd` is not the tail expression of execute()")
    body = end[:-1]
    arms = split_match_arms(body)
    if len(arms) < 100:
        die("S6: fewer dispatch arms than expected (%d)" % len(arms))
    kept, seen = [], set()
    for pat, expr in arms:
        names = re.findall(r"Command::([A-Za-z0-9_]+)", pat)
        if names and all(nm in S6_ALPHABET for nm in names):
            kept.append("            %s => %s,\n" % (pat, expr))
            seen.update(names)
    missing = [a for a in S6_ALPHABET if a not in seen]
    if missing:
        die("S6: dispatch arms not found for %s" % missing)
    sig_end = head.index("{")
    sig = re.sub(r"pub fn execute\b", "pub fn verif_execute_small", head[:sig_end])
    stats["s6"] = len(kept)
    return ("\n// ---- S6: generated by /verif/stage/stage.py (execute() restricted to a command alphabet; text copied) ----\n"
            "impl CommandExecutor {\n    #[allow(dead_code, unused_variables, unreachable_patterns, clippy::all)]\n" + sig + head[sig_end:]
            + "\n        match cmd {\n" + "".join(kept)
            + "            _ => panic!(\"verif: command outside the modelled alphabet\"),\n        }\n    }\n}\n")



def brace_block_end(text, i):
    """index of the `}` matching the `{` at text[i] (strings, chars and line comments skipped)"""
    depth, k, in_str = 0, i, False
    while k < len(text):
        ch = text[k]
        if in_str:
            if ch == "\\":
                k += 1
            elif ch == '"':
                in_str = False
        else:
            if ch == '"':
                in_str = True
            elif ch == "'" and re.match(r"'(\\.|[^\\'])'", text[k:k + 4]):
                k += len(re.match(r"'(\\.|[^\\'])'", text[k:k + 4]).group(0)) - 1
            elif text.startswith("//", k):
                k = text.index("\n", k)
                continue
            elif ch == "{":
                depth += 1
            elif ch == "}":
                depth -= 1
                if depth == 0:
                    return k
        k += 1
    return -1


def s7_parser_arms(src_text, which, stats):
    """S7: every arm of the command-name `match cmd_name.as_str() { ... }` of a RESP command parser becomes a
    function of its own (arm text copied verbatim): `Command::verif_arm_<which>_<NAME>(elements, cmd_name)`.
    The parsers are single 1500-line functions; symbolic execution through the whole name match did not finish
    for a one-argument GET, whereas one arm is seconds. That a name selects its arm is decided separately by the
    c16_name_* harnesses, which run the unmodified parser."""
    key = "match cmd_name.as_str() {"
    if src_text.count(key) != 1:
        die("S7: `%s` not found exactly once (%s)" % (key, which))
    i = src_text.index(key) + len(key) - 1
    k = brace_block_end(src_text, i)
    if k < 0:
        die("S7: unbalanced name match (%s)" % which)
    arms = split_match_arms(src_text[i + 1:k])
    if len(arms) < 50:
        die("S7: fewer parser arms than expected (%d)" % len(arms))
    elem = {"sim": "RespValue", "prod": "RespValueZeroCopy"}[which]
    out = ["\n// ---- S7: generated by /verif/stage/stage.py (one function per arm of the command-name match; arm text copied) ----\n",
           "impl Command {\n"]
    names = []
    for pat, expr in arms:
        lits = re.findall(r'"([A-Za-z0-9_.]+)"', pat)
        if pat.strip() == "_":
            nm = "UNKNOWN_"
        elif lits and re.fullmatch(r'\s*"[A-Za-z0-9_.]+"(\s*\|\s*"[A-Za-z0-9_.]+")*\s*', pat):
            nm = re.sub(r"[^A-Za-z0-9_]", "_", lits[0])
        else:
            die("S7: unexpected arm pattern %r (%s)" % (pat, which))
        names.append(nm)
        out.append("    #[allow(dead_code, unused_variables, unreachable_code, non_snake_case, clippy::all)]\n"
                   "    pub fn verif_arm_%s_%s(elements: &Vec<%s>, cmd_name: String) -> Result<Command, String> {\n        %s\n    }\n"
                   % (which, nm, elem, expr if expr.lstrip().startswith("{") else "{ " + expr + " }"))
    out.append("}\n#[allow(non_snake_case, dead_code)]\npub mod verif_arms_%s {\n    use super::*;\n" % which)
    for nm in names:
        out.append("    pub fn %s(elements: &Vec<%s>, cmd_name: String) -> Result<Command, String> { Command::verif_arm_%s_%s(elements, cmd_name) }\n"
                   % (nm, elem, which, nm))
    out.append("}\n")
    stats["s7"] = stats.get("s7", 0) + len(names)
    return "".join(out)



def find_stmt_end(text, i):
    """index just past the `;` that ends the statement starting at text[i] (depth 0; strings/comments skipped)"""
    depth, k, n = 0, i, len(text)
    while k < n:
        ch = text[k]
        if ch == '"':
            k += 1
            while text[k] != '"':
                k += 2 if text[k] == "\\" else 1
        elif ch == "'" and re.match(r"'(\\.|[^\\'])'", text[k:k + 4]):
            k += len(re.match(r"'(\\.|[^\\'])'", text[k:k + 4]).group(0)) - 1
        elif text.startswith("//", k):
            k = text.index("\n", k)
            continue
        elif ch in "([{":
            depth += 1
        elif ch in ")]}":
            depth -= 1
        elif ch == ";" and depth == 0:
            return k + 1
        k += 1
    return -1


def s8_compaction_fold(src_text, stats):
    """S8: the per-key survivor rule and the tombstone rule of Compactor::compact() are written inline in an
    async fn between object-store awaits. Their statements are copied into a synchronous function of the deltas
    read from the selected segments: (a) the `Ok(delta) => { .. }` arm of the loop over a segment's records,
    (b) the `let tombstone_cutoff = ..;` statement, (c) the `key_to_delta.retain(..);` statement.
    Fails closed if any piece touches `self` (other than self.config.tombstone_ttl), awaits, or is missing."""
    f = extract_fn(src_text, "compact")
    if f is None:
        die("S8: fn compact not found")
    a = "for delta_result in deltas_iter {"
    if f.count(a) != 1:
        die("S8: record loop not found exactly once")
    i = f.index(a) + len(a)
    m = re.match(r"\s*match delta_result \{", f[i:])
    if not m:
        die("S8: record loop does not start with `match delta_result`")
    mb = i + m.end() - 1
    me = brace_block_end(f, mb)
    arms = split_match_arms(f[mb + 1:me])
    ok = [e for p_, e in arms if p_.replace(" ", "") == "Ok(delta)"]
    if len(ok) != 1 or not ok[0].lstrip().startswith("{"):
        die("S8: `Ok(delta) => { .. }` arm not found")
    arm = ok[0]
    cm = re.search(r"let tombstone_cutoff\s*=", f)
    if not cm or len(re.findall(r"let tombstone_cutoff\s*=", f)) != 1:
        die("S8: `let tombstone_cutoff =` not found exactly once")
    cutoff = f[cm.start():find_stmt_end(f, cm.start())]
    cutoff = cutoff.replace("self.config.tombstone_ttl", "tombstone_ttl")
    rm = [x.start() for x in re.finditer(r"key_to_delta\s*\.retain\(", f)]
    if len(rm) != 1:
        die("S8: `key_to_delta.retain(` not found exactly once")
    retain = f[rm[0]:find_stmt_end(f, rm[0])]
    for name, piece in (("arm", arm), ("cutoff", cutoff), ("retain", retain)):
        if re.search(r"\bself\b|\.await|\bstore\b|\bmanifest\b", piece):
            die("S8: %s uses more than the deltas, the clock reading and the configured TTL" % name)
    stats["s8"] = 3
    # the records arrive as three optional parameters, not as a Vec: a value that has been through the heap comes back
    # with a discriminant CBMC no longer knows, and every CRDT kind would be explored. The arm text is copied per slot.
    return ("\n// ---- S8: generated by /verif/stage/stage.py (statements copied from Compactor::compact) ----\n"
            "#[allow(dead_code, unused_variables, unused_mut, unused_assignments, clippy::all)]\n"
            "pub fn verif_compact_fold(d0: Option<ReplicationDelta>, d1: Option<ReplicationDelta>, d2: Option<ReplicationDelta>, current_time: u64, tombstone_ttl: Duration) -> (HashMap<String, ReplicationDelta>, u64) {\n"
            "    let mut deltas_before = 0u64;\n"
            "    let mut key_to_delta: HashMap<String, ReplicationDelta> = HashMap::new();\n"
            "    let mut tombstones_removed = 0u64;\n"
            "    " + cutoff + "\n"
            "    if let Some(delta) = d0 " + arm + "\n"
            "    if let Some(delta) = d1 " + arm + "\n"
            "    if let Some(delta) = d2 " + arm + "\n"
            "    " + retain + "\n"
            "    (key_to_delta, tombstones_removed)\n}\n")


def s9_recover_plan(src_text, stats):
    """S9: which listed segments RecoveryManager::recover() loads, and in which order, is computed by synchronous
    statements between two awaits (after the checkpoint has been read, before the first segment is fetched). They are
    copied into a function of the manifest, the checkpoint presence and the checkpoint's last segment id; the plan is
    the sequence of ids the `for segment_info in ..` loop iterates over."""
    f = extract_fn(src_text, "recover")
    if f is None:
        die("S9: fn recover not found")
    a = re.search(r"let \(checkpoint_state, last_checkpoint_segment\)\s*=", f)
    if not a:
        die("S9: checkpoint statement not found")
    start = find_stmt_end(f, a.start())
    b = re.search(r"for segment_info in ([^{]+?)\s*\{", f[start:])
    if not b:
        die("S9: `for segment_info in ..` not found")
    region = f[start:start + b.start()]
    iter_expr = b.group(1)
    if re.search(r"\bself\b|\.await", region + iter_expr):
        die("S9: segment selection uses self or awaits")
    # the accumulator the loop body fills is declared in the region; its element type is inferred from the loop body
    region = re.sub(r"let mut (\w+) = Vec::new\(\);", r"let mut \1: Vec<ReplicationDelta> = Vec::new();", region)
    stats["s9"] = 1
    return ("\n// ---- S9: generated by /verif/stage/stage.py (statements copied from RecoveryManager::recover) ----\n"
            "#[allow(dead_code, unused_variables, unused_mut, unused_assignments, clippy::all)]\n"
            "pub fn verif_recover_segment_plan(manifest: &Manifest, checkpoint_state: &Option<HashMap<String, ReplicatedValue>>, last_checkpoint_segment: u64) -> Vec<u64> {\n"
            "    let mut stats = RecoveryStats::default();\n"
            + region +
            "\n    let mut verif_plan: Vec<u64> = Vec::new();\n"
            "    for segment_info in " + iter_expr + " { verif_plan.push(segment_info.id); }\n"
            "    verif_plan\n}\n")


def s10_recovered_arm(src_text, stats):
    """S10: the `ApplyRecoveredState { key, value }` arm of ReplicatedShardActor::run() (how a checkpoint entry enters a
    shard after a restart) lives inside the async message loop. Its body is copied into a function of the two fields
    it touches."""
    f = extract_fn(src_text, "run")
    if f is None:
        die("S10: fn run not found in replicated_shard_actor.rs")
    a = "match msg {"
    if f.count(a) != 1:
        die("S10: `match msg {` not found exactly once")
    mb = f.index(a) + len(a) - 1
    me = brace_block_end(f, mb)
    arms = split_match_arms(f[mb + 1:me])
    hit = [e for p_, e in arms if re.sub(r"\s+", "", p_) == "ReplicatedShardMessage::ApplyRecoveredState{key,value}"]
    if len(hit) != 1:
        die("S10: ApplyRecoveredState arm not found")
    body = hit[0]
    fields = set(re.findall(r"\bself\.([a-zA-Z_][a-zA-Z0-9_]*)", body))
    if fields - {"replica_state", "executor"} or ".await" in body or re.search(r"\bself\b(?!\.)", body):
        die("S10: ApplyRecoveredState arm uses %s" % sorted(fields))
    body = re.sub(r"\bself\.replica_state\b", "(*replica_state)", body)
    body = re.sub(r"\bself\.executor\b", "(*executor)", body)
    stats["s10"] = 1
    return ("\n// ---- S10: generated by /verif/stage/stage.py (ApplyRecoveredState arm of ReplicatedShardActor::run; text copied) ----\n"
            "#[allow(dead_code, unused_variables, unused_mut, clippy::all)]\n"
            "pub fn verif_apply_recovered_state(replica_state: &mut ShardReplicaState, executor: &mut CommandExecutor, key: String, value: crate::replication::state::ReplicatedValue) "
            + (body if body.lstrip().startswith("{") else "{ " + body + "; }") + "\n")



def s11_actor_methods(src_text, stats):
    """S11: the two synchronous methods of ReplicatedShardActor that connect the executor with the replication state
    (record_mutation_post_execute: command -> delta; apply_remote_delta_impl: merged delta -> executor commands) become
    free functions of the two fields they use (text copied, `self.replica_state` / `self.executor` rebound). The actor
    itself cannot be constructed without a runtime (its mailbox)."""
    out = ["\n// ---- S11: generated by /verif/stage/stage.py (ReplicatedShardActor methods over their two fields; text copied) ----\n"]
    for name in ("record_mutation_post_execute", "apply_remote_delta_impl"):
        f = extract_fn(src_text, name)
        if f is None:
            die("S11: fn %s not found" % name)
        sig_end = f.index("{")
        sig, body = f[:sig_end], f[sig_end:]
        fields = set(re.findall(r"\bself\.([a-zA-Z_][a-zA-Z0-9_]*)", body))
        if fields - {"replica_state", "executor"} or ".await" in body or re.search(r"\bself\b(?!\.)", body):
            die("S11: %s uses %s" % (name, sorted(fields)))
        sig = re.sub(r"^[ \t]*(?:pub(?:\([a-z]+\))?\s+)?fn\s+" + name, "pub fn verif_" + name, sig, flags=re.M)
        sig, c = re.subn(r"\(\s*&mut self\s*,?", "(replica_state: &mut ShardReplicaState, executor: &mut CommandExecutor, ", sig, count=1)
        if c != 1:
            die("S11: %s does not take &mut self" % name)
        body = re.sub(r"\bself\.replica_state\b", "(*replica_state)", body)
        body = re.sub(r"\bself\.executor\b", "(*executor)", body)
        out.append("#[allow(dead_code, unused_variables, unused_mut, clippy::all)]\n" + sig + body + "\n")
        stats["s11"] = stats.get("s11", 0) + 1
    return "".join(out)


def write_if_changed(path, data):
    if os.path.exists(path):
        with open(path, "rb") as f:
            if f.read() == data:
                return False
    os.makedirs(os.path.dirname(path), exist_ok=True)
    with open(path, "wb") as f:
        f.write(data)
    return True


def main():
    repo, dest = sys.argv[1], sys.argv[2]
    model_path = os.path.abspath(os.path.join(os.path.dirname(__file__), "..", "models", COLL))
    stats = {"s1": 0, "s2": 0, "s3": 0, "s4": 0, "s5": 0, "s6": 0, "files": 0, "files_substituted": 0, "rewritten": 0}
    wanted = set()
    h = hashlib.sha256()
    for root, dirs, files in os.walk(os.path.join(repo, "src")):
        dirs.sort()
        for fn in sorted(files):
            p = os.path.join(root, fn)
            rel = os.path.relpath(p, repo)
            wanted.add(rel)
            with open(p, "rb") as f:
                data = f.read()
            h.update(rel.encode() + b"\0" + data)
            if fn.endswith(".rs"):
                text = data.decode("utf-8")
                text, changed = subst_collections(text, stats)
                text = disable_intree_kani(text, stats)
                text = subst_memchr(text, stats)
                if rel == "src/production/connection_optimized.rs":
                    text += s3_collectors(text, stats)
                if rel == "src/redis/executor/mod.rs":
                    text += s6_small_dispatch(text, stats)
                if rel == "src/redis/parser.rs":
                    text += s7_parser_arms(text, "sim", stats)
                if rel == "src/redis/commands.rs":
                    text += s7_parser_arms(text, "prod", stats)
                if rel == "src/streaming/recovery.rs":
                    text += s5_wal_threshold(text, stats)
                    text += s9_recover_plan(text, stats)
                if rel == "src/streaming/compaction.rs":
                    text += s8_compaction_fold(text, stats)
                if rel == "src/production/replicated_shard_actor.rs":
                    text += s10_recovered_arm(text, stats)
                    text += s11_actor_methods(text, stats)
                if rel == "src/redis/mod.rs":
                    text += "\n// S7: generated re-exports\npub use commands::verif_arms_prod;\npub use parser::verif_arms_sim;\n"
                if rel == "src/production/mod.rs":
                    text += ("\n// S3: generated re-exports\npub use connection_optimized::{verif_batch_admitted, verif_collect_get_keys, "
                             "verif_collect_set_pairs, verif_fast_get_parse, verif_fast_set_parse};\n"
                             "// S10: generated re-export\npub use replicated_shard_actor::{verif_apply_recovered_state, verif_record_mutation_post_execute, verif_apply_remote_delta_impl};\n")
                if changed:
                    stats["files_substituted"] += 1
                data = text.encode("utf-8")
            stats["files"] += 1
            if write_if_changed(os.path.join(dest, rel), data):
                stats["rewritten"] += 1
    # Cargo.toml: same manifest + the container model as a dependency; benches/dev-deps dropped
    with open(os.path.join(repo, "Cargo.toml")) as f:
        toml = f.read()
    h.update(toml.encode())
    if "\n[dependencies]\n" not in toml:
        die("Cargo.toml has no [dependencies] table")
    toml = toml.replace("\n[dependencies]\n", f"\n[dependencies]\n{COLL} = {{ path = \"{model_path}\" }}\n", 1)
    # drop whole sections [[bench]] and [dev-dependencies] (their files are not staged)
    out, skip = [], False
    for line in toml.split("\n"):
        if re.match(r"^\[", line):
            skip = line.strip() in ("[[bench]]", "[dev-dependencies]")
        if not skip:
            out.append(line)
    toml = "\n".join(out)
    wanted.add("Cargo.toml")
    if write_if_changed(os.path.join(dest, "Cargo.toml"), toml.encode()):
        stats["rewritten"] += 1
    # remove stale files
    for root, dirs, files in os.walk(os.path.join(dest, "src")):
        for fn in files:
            rel = os.path.relpath(os.path.join(root, fn), dest)
            if rel not in wanted:
                os.remove(os.path.join(root, fn))
    if stats["s2"] > 1:
        die("more than one in-tree kani_proofs module")
    stats["source_sha256"] = h.hexdigest()
    print(json.dumps(stats))


if __name__ == "__main__":
    main()
