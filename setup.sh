#!/bin/bash
# Offline setup after a fresh restore: builds the native replay/fixture binaries against /repo and warms the
# Kani dependency build of the staged copy. ./check regenerates all of this from /repo's working tree on every
# run (cargo fingerprints decide what is rebuilt); this only saves time for the first check.
set -e
cd "$(dirname "$0")"
export CARGO_NET_OFFLINE=true CARGO_TERM_COLOR=never
mkdir -p .build/gen evidence
cp /repo/Cargo.lock replay/Cargo.lock
# the fixture generator first: scenarios/c14.rs includes the file it writes
(cd replay && cargo build --offline --target-dir ../.build/replay-target --bin vfixtures 2>&1 | tail -1)
.build/replay-target/debug/vfixtures > .build/gen/fixtures.rs
(cd replay && cargo build --offline --target-dir ../.build/replay-target 2>&1 | tail -1 && cargo build --release --offline --target-dir ../.build/replay-target 2>&1 | tail -1)
python3 stage/stage.py /repo .build/stage/repo >/dev/null
cp /repo/Cargo.lock kani/Cargo.lock
(cd kani && cargo kani -Z stubbing -Z unstable-options --only-codegen --harness scenarios::c07_twin --exact --target-dir ../.build/target-base 2>&1 | tail -1)
# second dependency build with the 2-slot container model (harnesses named *_c2)
(cd kani && cargo kani -Z stubbing -Z unstable-options --features cap2 --only-codegen --harness scenarios::c13_twin_c2 --exact --target-dir ../.build/target-base-cap2 2>&1 | tail -1)
# third dependency build with the 1-slot container model (harnesses named *_c1)
(cd kani && cargo kani -Z stubbing -Z unstable-options --features cap1 --only-codegen --harness scenarios::c13_twin_c1 --exact --target-dir ../.build/target-base-cap1 2>&1 | tail -1)
echo setup done
