//! vreplay <harness> <hex,hex,...> — run one scenario natively on recorded values.
//! exit 0 + "REPLAY-DONE": ran to the end (FAILED-CHECK lines list violated assertions)
//! exit 3: an assumption of the harness is false for these values (not a counterexample)
//! exit 4: the scenario drew more values than were recorded
//! abort / panic: the real code panicked
#![allow(unused, non_snake_case, static_mut_refs)]

pub mod vs {
    use std::cell::RefCell;
    thread_local! { static VALS: RefCell<(Vec<Vec<u8>>, usize)> = RefCell::new((Vec::new(), 0)); }
    pub fn load(v: Vec<Vec<u8>>) { VALS.with(|c| *c.borrow_mut() = (v, 0)); }
    fn next(n: usize) -> u64 {
        VALS.with(|c| {
            let mut c = c.borrow_mut();
            let i = c.1;
            if i >= c.0.len() {
                println!("REPLAY-EXHAUSTED at draw {}", i);
                std::process::exit(4);
            }
            c.1 += 1;
            let mut x = 0u64;
            for (k, b) in c.0[i].iter().take(8).enumerate() { x |= (*b as u64) << (8 * k); }
            let _ = n;
            x
        })
    }
    pub fn u8() -> u8 { next(1) as u8 }
    pub fn u16() -> u16 { next(2) as u16 }
    pub fn u32() -> u32 { next(4) as u32 }
    pub fn u64() -> u64 { next(8) }
    pub fn i64() -> i64 { next(8) as i64 }
    pub fn usize() -> usize { next(8) as usize }
    pub fn isize() -> isize { next(8) as isize }
    pub fn bool() -> bool { next(1) & 1 == 1 }
    pub fn assume(c: bool) {
        if !c {
            println!("REPLAY-ASSUME-FALSE");
            std::process::exit(3);
        }
    }
    pub fn alloc_ok() -> bool { !crate::BIG_ALLOC.load(std::sync::atomic::Ordering::SeqCst) }
    /// only meaningful under the Kani hasher model; native scenarios compare real digests instead
    pub fn streams_equal(_i: usize, _j: usize) -> bool { false }
    pub fn streams_reset() {}
    /// natively the ring uses its real hash functions; scenarios sweep real keys instead (vs::NATIVE)
    pub fn ring_set(_layout: usize, _key_pos: u64) {}
    pub const NATIVE: bool = true;
}

/// counting allocator: a single request above 256 MiB is recorded (and refused above 4 GiB, which makes
/// the real code take its allocation-failure path = abort, after the label has been written out).
pub static BIG_ALLOC: std::sync::atomic::AtomicBool = std::sync::atomic::AtomicBool::new(false);
struct Counting;
unsafe impl std::alloc::GlobalAlloc for Counting {
    unsafe fn alloc(&self, l: std::alloc::Layout) -> *mut u8 {
        if l.size() > (256 << 20) {
            BIG_ALLOC.store(true, std::sync::atomic::Ordering::SeqCst);
            use std::io::Write;
            use std::os::fd::FromRawFd;
            let mut f = std::mem::ManuallyDrop::new(std::fs::File::from_raw_fd(1));
            let _ = f.write_all(b"FAILED-CHECK alloc:bounded by buffer\n");
            if l.size() > (4usize << 30) { return std::ptr::null_mut(); }
        }
        std::alloc::System.alloc(l)
    }
    unsafe fn dealloc(&self, p: *mut u8, l: std::alloc::Layout) { std::alloc::System.dealloc(p, l) }
}
#[global_allocator]
static GLOBAL: Counting = Counting;

// mirrors the Kani side: every check consumes one recorded value (the fork bit), which is ignored here
macro_rules! vcheck { ($c:expr, $l:expr) => {{ let c: bool = $c; let _ = crate::vs::bool(); if !c { println!("FAILED-CHECK {}", $l); } }}; }
macro_rules! vcover { ($c:expr, $l:expr) => { if $c { println!("COVERED {}", $l); } }; }

/// C16 natively: the real parsers on the whole frame
macro_rules! c16arm { ($n:ident) => { (
    |e: Vec<redis_sim::redis::RespValue>| redis_sim::redis::Command::from_resp(&redis_sim::redis::RespValue::Array(Some(e))),
    |e: Vec<redis_sim::redis::RespValueZeroCopy>| redis_sim::redis::Command::from_resp_zero_copy(&redis_sim::redis::RespValueZeroCopy::Array(Some(e))),
) }; }

pub mod coll { pub use std::collections::{HashMap, HashSet}; }
pub mod conn;
/// native counterpart of the Kani crate's `env`: the real handler answers
pub mod env {
    use bytes::Bytes;
    pub fn collect_get_keys(b: &[u8]) -> (Vec<Bytes>, usize, usize) { crate::conn::collect_get_keys(b) }
    pub fn collect_set_pairs(b: &[u8]) -> (Vec<(Bytes, Bytes)>, usize, usize) { crate::conn::collect_set_pairs(b) }
    /// natively the fast path is only reachable through run(): one frame in, observe the reply
    /// Ok((key, consumed)) when the server answered exactly one reply, Err(1) when it stayed silent
    pub fn fast_get_parse(b: &[u8]) -> (Result<(Bytes, usize), u8>, usize) {
        let o = crate::conn::drive(&[b.to_vec()], redis_sim::production::ConnectionConfig::default());
        let n = crate::conn::count_replies(&o.replies);
        if n == 0 { (Err(1), b.len()) } else if o.replies.starts_with(b"-") { (Err(2), 0) } else { (Ok((Bytes::new(), usize::MAX)), 0) }
    }
    pub fn fast_set_parse(b: &[u8]) -> (Result<(Bytes, Bytes, usize), u8>, usize) {
        let o = crate::conn::drive(&[b.to_vec()], redis_sim::production::ConnectionConfig::default());
        let n = crate::conn::count_replies(&o.replies);
        if n == 0 { (Err(1), b.len()) } else if o.replies.starts_with(b"-") { (Err(2), 0) } else { (Ok((Bytes::new(), Bytes::new(), usize::MAX)), 0) }
    }
    pub fn wal_only_entry_replayed(seg_max: [u64; 2], ts: u64) -> bool { crate::conn::wal_only_entry_replayed(seg_max, ts) }
    pub fn compact_then_recover(inside: [Option<redis_sim::replication::state::ReplicationDelta>; 3], outside: Option<redis_sim::replication::state::ReplicationDelta>, now: u64)
        -> (Option<redis_sim::replication::state::ReplicatedValue>, Option<redis_sim::replication::state::ReplicatedValue>, bool, u64) { crate::conn::compact_then_recover(inside.into_iter().flatten().collect(), outside, now) }
    pub fn glue_apply(first: Option<redis_sim::replication::state::ReplicatedValue>, second: redis_sim::replication::state::ReplicatedValue)
        -> (Option<redis_sim::replication::state::ReplicatedValue>, Option<u8>, Option<u8>, Option<u8>, bool) { crate::conn::glue_apply(first, second) }
    pub fn clock_after_command(clock0: u64, which: u8) -> u64 { crate::conn::clock_after_command(clock0, which) }
    pub fn recover_plan(ids: &[u64], min_ts: &[u64], ckpt_last: Option<u64>) -> Vec<u64> { crate::conn::recover_plan(ids, min_ts, ckpt_last) }
    pub fn recovered_then_write(clock0: u64, recovered: redis_sim::replication::state::ReplicatedValue, nb: u8)
        -> (redis_sim::replication::lattice::LamportClock, Option<u8>) { crate::conn::recovered_then_write(clock0, recovered, nb) }
    /// natively: the buffer (the GET frames followed by one padded PING, so that run() enters its batching
    /// branch) goes through the real run(); answered <=> one reply per GET the collector consumed, plus the PING
    pub fn consumed_gets_answered(buffer: &[u8], count: usize, threshold: usize) -> bool {
        let mut cfg = redis_sim::production::ConnectionConfig::default();
        cfg.batch_threshold = threshold;
        let mut g = buffer.to_vec();
        g.extend_from_slice(b"*2\r\n$4\r\nPING\r\n$64\r\naaaaaaaaaaaaaaaaaaaaaaaaaaaaaaaaaaaaaaaaaaaaaaaaaaaaaaaaaaaaaaaa\r\n");
        let o = crate::conn::drive(&[g], cfg);
        crate::conn::count_replies(&o.replies) >= count + 1
    }
}

macro_rules! registry {
    ($( $name:ident, $prop:literal, $tier:ident, $unwind:literal, $kind:ident, $cap:literal => $body:expr; )*) => {
        pub fn dispatch(name: &str) -> bool {
            match name {
                $( stringify!($name) => { $body; true } )*
                _ => false,
            }
        }
    };
}

#[path = "../../scenarios/mod.rs"]
pub mod scenarios;

fn main() {
    let a: Vec<String> = std::env::args().collect();
    if a.len() >= 3 && a[1] == "--collect" { debug_collect(&a[2]); return; }
    if a.len() >= 3 && a[1] == "--conn" { debug_conn(&a[2], a.get(3).and_then(|t| t.parse().ok()).unwrap_or(2)); return; }
    if a.len() < 3 { eprintln!("usage: vreplay <harness> <hex,hex,...> | vreplay --conn <bytes with \\r\\n escapes> [batch_threshold]"); std::process::exit(2); }
    let vals: Vec<Vec<u8>> = a[2].split(',').filter(|s| !s.is_empty()).map(|h| {
        (0..h.len() / 2).map(|i| u8::from_str_radix(&h[2 * i..2 * i + 2], 16).unwrap()).collect()
    }).collect();
    vs::load(vals);
    if !scenarios::dispatch(&a[1]) { eprintln!("unknown harness {}", a[1]); std::process::exit(2); }
    println!("REPLAY-DONE");
}

#[allow(dead_code)]
pub fn debug_conn(input: &str, threshold: usize) {
    let mut cfg = redis_sim::production::ConnectionConfig::default();
    cfg.batch_threshold = threshold;
    let bytes = input.replace("\\r", "\r").replace("\\n", "\n").into_bytes();
    let o = conn::drive(&[bytes], cfg);
    println!("replies={:?} closed={} n={}", String::from_utf8_lossy(&o.replies), o.closed, conn::count_replies(&o.replies));
}
#[allow(dead_code)]
pub fn debug_collect(input: &str) {
    let bytes = input.replace("\\r", "\r").replace("\\n", "\n").into_bytes();
    let (k, c, left) = conn::collect_get_keys(&bytes);
    println!("collect_get_keys: keys={:?} count={} left={} of {}", k, c, left, bytes.len());
}
