//! Native access to the real connection handler: the same questions the Kani build asks of the
//! S3-extracted functions are answered here by the real `OptimizedConnectionHandler` of /repo, and whole
//! pipelines can be driven through `run()` over an in-process duplex stream.
use bytes::Bytes;
use parking_lot::RwLock;
use redis_sim::observability::{DatadogConfig, Metrics};
use redis_sim::production::{BufferPoolAsync, ConnectionConfig, OptimizedConnectionHandler, ShardedActorState};
use redis_sim::security::AclManager;
use std::sync::Arc;
use tokio::io::{AsyncReadExt, AsyncWriteExt, DuplexStream};

fn rt() -> tokio::runtime::Runtime {
    tokio::runtime::Builder::new_multi_thread().worker_threads(2).enable_all().build().unwrap()
}
fn handler(server: DuplexStream, cfg: ConnectionConfig) -> OptimizedConnectionHandler<DuplexStream> {
    let state = ShardedActorState::with_shards(2);
    OptimizedConnectionHandler::new(
        server, state, "verif".to_string(), Arc::new(BufferPoolAsync::new(4, 8192)),
        Arc::new(Metrics::new(&DatadogConfig::default())), cfg, Arc::new(RwLock::new(AclManager::new())), None)
}
fn with_handler<R>(f: impl FnOnce(&mut OptimizedConnectionHandler<DuplexStream>) -> R) -> R {
    let rt = rt();
    let _g = rt.enter();
    let (_client, server) = tokio::io::duplex(1 << 16);
    let mut h = handler(server, ConnectionConfig::default());
    let r = f(&mut h);
    std::mem::forget(h);
    r
}
pub fn collect_get_keys(b: &[u8]) -> (Vec<Bytes>, usize, usize) {
    with_handler(|h| { h.verif_buffer_mut().clear(); h.verif_buffer_mut().extend_from_slice(b); let (k, c) = h.verif_collect_get_keys(); (k, c, h.verif_buffer_mut().len()) })
}
pub fn collect_set_pairs(b: &[u8]) -> (Vec<(Bytes, Bytes)>, usize, usize) {
    with_handler(|h| { h.verif_buffer_mut().clear(); h.verif_buffer_mut().extend_from_slice(b); let (k, c) = h.verif_collect_set_pairs(); (k, c, h.verif_buffer_mut().len()) })
}

pub struct Outcome { pub replies: Vec<u8>, pub closed: bool }
/// feed `chunks` (one write each, with a pause in between) to a fresh server connection and collect
/// everything it writes until it has been quiet for 300 ms
pub fn drive(chunks: &[Vec<u8>], cfg: ConnectionConfig) -> Outcome {
    let rt = rt();
    rt.block_on(async move {
        let (mut client, server) = tokio::io::duplex(1 << 20);
        let h = handler(server, cfg);
        let jh = tokio::spawn(h.run());
        let mut out = Vec::new();
        let mut buf = vec![0u8; 1 << 16];
        for c in chunks {
            client.write_all(c).await.unwrap();
            client.flush().await.unwrap();
            tokio::time::sleep(std::time::Duration::from_millis(60)).await;
        }
        let mut closed = false;
        loop {
            match tokio::time::timeout(std::time::Duration::from_millis(300), client.read(&mut buf)).await {
                Ok(Ok(0)) => { closed = true; break; }
                Ok(Ok(n)) => out.extend_from_slice(&buf[..n]),
                Ok(Err(_)) => { closed = true; break; }
                Err(_) => break,
            }
        }
        drop(client);
        let _ = tokio::time::timeout(std::time::Duration::from_millis(500), jh).await;
        Outcome { replies: out, closed }
    })
}
/// number of complete top-level RESP replies in `bytes` (simple strings, errors, integers, bulk strings)
pub fn count_replies(bytes: &[u8]) -> usize {
    let mut i = 0;
    let mut n = 0;
    while i < bytes.len() {
        let Some(eol) = bytes[i..].windows(2).position(|w| w == b"\r\n") else { break };
        let line = &bytes[i + 1..i + eol];
        match bytes[i] {
            b'$' => {
                let l: i64 = std::str::from_utf8(line).ok().and_then(|s| s.parse().ok()).unwrap_or(-1);
                i += eol + 2;
                if l >= 0 { i += l as usize + 2; }
            }
            _ => { i += eol + 2; }
        }
        if i <= bytes.len() { n += 1; }
    }
    n
}

/// C11 natively: build an object store with two segments (one delta each, stamped with the given maxima)
/// and a WAL holding one entry for key "walonly" stamped `ts`; run the real RecoveryManager::recover_with_wal
/// and report whether that entry is among the recovered deltas.
pub fn wal_only_entry_replayed(seg_max: [u64; 2], ts: u64) -> bool {
    use redis_sim::redis::SDS;
    use redis_sim::replication::lattice::{LamportClock, ReplicaId};
    use redis_sim::replication::state::{ReplicatedValue, ReplicationDelta};
    use redis_sim::streaming::{Compression, InMemoryObjectStore, InMemoryWalStore, Manifest, ManifestManager, ObjectStore, RecoveryManager, SegmentInfo, SegmentWriter, WalEntry, WalRotator};
    let mk = |key: &str, t: u64, r: u64| {
        let c = LamportClock { time: t, replica_id: ReplicaId(r) };
        ReplicationDelta::new(key.to_string(), ReplicatedValue::with_value(SDS::from_str("v"), c), ReplicaId(r))
    };
    let rt = rt();
    rt.block_on(async move {
        let store = InMemoryObjectStore::new();
        let mm = ManifestManager::new(store.clone(), "t");
        let mut manifest = Manifest::new(1);
        for (i, mx) in seg_max.iter().enumerate() {
            let mut w = SegmentWriter::new(Compression::None);
            w.write_delta(&mk(if i == 0 { "s0" } else { "s1" }, *mx, 1)).unwrap();
            let data = w.finish().unwrap();
            let key = format!("t/segments/segment-{:08}.seg", i);
            let size = data.len() as u64;
            store.put(&key, &data).await.unwrap();
            manifest.add_segment(SegmentInfo { id: i as u64, key, record_count: 1, size_bytes: size, min_timestamp: *mx, max_timestamp: *mx });
        }
        mm.save(&manifest).await.unwrap();
        let ws = InMemoryWalStore::new();
        let mut rot = WalRotator::new(ws.clone(), 1 << 20).unwrap();
        rot.append(&WalEntry::from_delta(&mk("walonly", ts, 2), ts).unwrap()).unwrap();
        rot.sync().unwrap();
        let reader = WalRotator::new(ws, 1 << 20).unwrap();
        let rec = RecoveryManager::new(store, "t", 1);
        let r = rec.recover_with_wal(&reader).await.unwrap();
        r.deltas.iter().any(|d| d.key == "walonly")
    })
}

// ------------------------------------------------------------------------------------------------------------
// C13 / C11 / C08 natively: the real async code on in-memory stores

#[derive(Clone)]
struct FixedTime(u64);
impl redis_sim::io::TimeSource for FixedTime { fn now_millis(&self) -> u64 { self.0 } }

fn fold_key(r: &redis_sim::streaming::RecoveredState, key: &str) -> Option<redis_sim::replication::state::ReplicatedValue> {
    let mut acc: Option<redis_sim::replication::state::ReplicatedValue> = r.checkpoint_state.as_ref().and_then(|m| m.get(key).cloned());
    for d in &r.deltas {
        if d.key == key { acc = Some(match acc { Some(a) => a.merge(&d.value), None => d.value.clone() }); }
    }
    acc
}

/// real Compactor::compact() between two real RecoveryManager::recover() runs. Segment 0 (never selected: it is made
/// larger than target_segment_size by padding keys) holds the `outside` update, segments 1.. hold one `inside` update each.
pub fn compact_then_recover(inside: Vec<redis_sim::replication::state::ReplicationDelta>, outside: Option<redis_sim::replication::state::ReplicationDelta>, now: u64)
    -> (Option<redis_sim::replication::state::ReplicatedValue>, Option<redis_sim::replication::state::ReplicatedValue>, bool, u64) {
    use redis_sim::redis::SDS;
    use redis_sim::replication::lattice::{LamportClock, ReplicaId};
    use redis_sim::replication::state::{ReplicatedValue, ReplicationDelta};
    use redis_sim::streaming::{CompactionConfig, Compactor, Compression, InMemoryObjectStore, Manifest, ManifestManager, ObjectStore, RecoveryManager, SegmentInfo, SegmentWriter};
    let rt = rt();
    rt.block_on(async move {
        let store = Arc::new(InMemoryObjectStore::new());
        let mm = ManifestManager::new((*store).clone(), "t");
        let mut manifest = Manifest::new(1);
        let mut next = if outside.is_some() { 0u64 } else { 1u64 };
        let mut put = |deltas: Vec<ReplicationDelta>| {
            let mut w = SegmentWriter::new(Compression::None);
            let (mut mn, mut mx) = (u64::MAX, 0u64);
            for d in &deltas { w.write_delta(d).unwrap(); mn = mn.min(d.value.timestamp.time); mx = mx.max(d.value.timestamp.time); }
            let data = w.finish().unwrap();
            let key = format!("t/segments/segment-{:08}.seg", next);
            let info = SegmentInfo { id: next, key: key.clone(), record_count: deltas.len() as u32, size_bytes: data.len() as u64, min_timestamp: mn, max_timestamp: mx };
            next += 1;
            (key, data, info)
        };
        let mut big = 0u64;
        if let Some(o) = outside {
            let mut v = vec![o];
            for i in 0..64 {
                let c = LamportClock { time: 1, replica_id: ReplicaId(9) };
                v.push(ReplicationDelta::new(format!("pad-{}", i), ReplicatedValue::with_value(SDS::from_str("padding-padding-padding"), c), ReplicaId(9)));
            }
            let (k, data, info) = put(v);
            big = info.size_bytes;
            store.put(&k, &data).await.unwrap();
            manifest.add_segment(info);
        }
        let mut small_max = 0u64;
        for d in inside {
            let (k, data, info) = put(vec![d]);
            small_max = small_max.max(info.size_bytes);
            store.put(&k, &data).await.unwrap();
            manifest.add_segment(info);
        }
        manifest.next_segment_id = next;
        mm.save(&manifest).await.unwrap();
        let rec = RecoveryManager::new((*store).clone(), "t", 1);
        let before = fold_key(&rec.recover().await.unwrap(), "k");
        let mut cfg = CompactionConfig::test();
        cfg.tombstone_ttl = std::time::Duration::ZERO;
        cfg.min_segments_to_compact = 1;
        cfg.max_segments_per_compaction = 8;
        cfg.target_segment_size = (small_max + 1) as usize;
        assert!(big == 0 || big > small_max + 1, "padding did not make the outside segment larger than the compacted ones");
        let mut comp = Compactor::with_time_source(store.clone(), "t".to_string(), mm.clone(), cfg, FixedTime(now));
        let res = comp.compact().await.expect("compaction failed");
        let survives = match &res.segment_created {
            Some(info) => {
                let data = store.get(&info.key).await.unwrap();
                let r = redis_sim::streaming::SegmentReader::open(&data).unwrap();
                r.deltas().unwrap().any(|d| d.map(|d| d.key == "k").unwrap_or(false))
            }
            None => false,
        };
        let after = fold_key(&rec.recover().await.unwrap(), "k");
        (before, after, survives, res.tombstones_removed)
    })
}

/// real RecoveryManager::recover(): segment i holds one update of key "s<i>"; returns the ids whose update came back
pub fn recover_plan(ids: &[u64], min_ts: &[u64], ckpt_last: Option<u64>) -> Vec<u64> {
    use redis_sim::redis::SDS;
    use redis_sim::replication::lattice::{LamportClock, ReplicaId};
    use redis_sim::replication::state::{ReplicatedValue, ReplicationDelta};
    use redis_sim::streaming::{CheckpointInfo, CheckpointWriter, Compression, InMemoryObjectStore, Manifest, ManifestManager, ObjectStore, RecoveryManager, SegmentInfo, SegmentWriter};
    let ids = ids.to_vec();
    let min_ts = min_ts.to_vec();
    let rt = rt();
    rt.block_on(async move {
        let store = InMemoryObjectStore::new();
        let mm = ManifestManager::new(store.clone(), "t");
        let mut manifest = Manifest::new(1);
        for (i, id) in ids.iter().enumerate() {
            let c = LamportClock { time: min_ts[i], replica_id: ReplicaId(1) };
            let d = ReplicationDelta::new(format!("s{}", id), ReplicatedValue::with_value(SDS::from_str("v"), c), ReplicaId(1));
            let mut w = SegmentWriter::new(Compression::None);
            w.write_delta(&d).unwrap();
            let data = w.finish().unwrap();
            let key = format!("t/segments/segment-{:08}.seg", id);
            store.put(&key, &data).await.unwrap();
            manifest.segments.push(SegmentInfo { id: *id, key, record_count: 1, size_bytes: data.len() as u64, min_timestamp: min_ts[i], max_timestamp: min_ts[i] });
        }
        if let Some(last) = ckpt_last {
            let data = CheckpointWriter::new(Compression::None).write(std::collections::HashMap::new(), 1, last).unwrap();
            store.put("t/checkpoints/c.chk", &data).await.unwrap();
            manifest.checkpoint = Some(CheckpointInfo { key: "t/checkpoints/c.chk".to_string(), timestamp_ms: 1, key_count: 0, last_segment_id: last });
        }
        manifest.next_segment_id = 8;
        mm.save(&manifest).await.unwrap();
        let rec = RecoveryManager::new(store, "t", 1);
        let r = rec.recover().await.expect("recover failed");
        let mut plan = Vec::new();
        for d in &r.deltas {
            if let Some(id) = d.key.strip_prefix('s').and_then(|x| x.parse::<u64>().ok()) { plan.push(id); }
        }
        plan
    })
}

/// real ReplicatedShardActor: clock brought to `clock0` by a remote delta on another key, then the checkpoint entry
/// enters through the mailbox (ApplyRecoveredState), then SET k <nb> through Execute
pub fn recovered_then_write(clock0: u64, recovered: redis_sim::replication::state::ReplicatedValue, nb: u8)
    -> (redis_sim::replication::lattice::LamportClock, Option<u8>) {
    use redis_sim::production::ReplicatedShardActor;
    use redis_sim::redis::{Command, SDS};
    use redis_sim::replication::config::ConsistencyLevel;
    use redis_sim::replication::lattice::{LamportClock, ReplicaId};
    use redis_sim::replication::state::{ReplicatedValue, ReplicationDelta};
    let rt = rt();
    rt.block_on(async move {
        let h = ReplicatedShardActor::spawn(ReplicaId(1), ConsistencyLevel::Eventual, 0);
        if clock0 > 0 {
            let c = LamportClock { time: clock0 - 1, replica_id: ReplicaId(2) };
            h.apply_remote_delta(ReplicationDelta::new("z".to_string(), ReplicatedValue::with_value(SDS::from_str("z"), c), ReplicaId(2)));
        }
        let peer = recovered.clone();
        h.apply_recovered_state("k".to_string(), recovered);
        let (_resp, delta) = h.execute(Command::set("k".to_string(), SDS::new(vec![nb]))).await;
        let d = delta.expect("SET produced no delta");
        let on_peer = peer.merge(&d.value);
        (d.value.timestamp, on_peer.get().map(|s| s.as_bytes()[0]))
    })
}

fn bulk_byte(r: &redis_sim::redis::RespValue) -> Option<u8> {
    match r { redis_sim::redis::RespValue::BulkString(Some(b)) => Some(if b.is_empty() { 0 } else { b[0] }), _ => None }
}
/// real actor: both deltas through the mailbox, then what it serves for GET k / HGET k f / HGET k g and its snapshot
pub fn glue_apply(first: Option<redis_sim::replication::state::ReplicatedValue>, second: redis_sim::replication::state::ReplicatedValue)
    -> (Option<redis_sim::replication::state::ReplicatedValue>, Option<u8>, Option<u8>, Option<u8>, bool) {
    use redis_sim::production::ReplicatedShardActor;
    use redis_sim::redis::{Command, SDS};
    use redis_sim::replication::config::ConsistencyLevel;
    use redis_sim::replication::lattice::ReplicaId;
    use redis_sim::replication::state::ReplicationDelta;
    let rt = rt();
    rt.block_on(async move {
        let h = ReplicatedShardActor::spawn(ReplicaId(1), ConsistencyLevel::Eventual, 0);
        if let Some(v) = first { let src = v.timestamp.replica_id; h.apply_remote_delta(ReplicationDelta::new("k".to_string(), v, src)); }
        let src = second.timestamp.replica_id;
        h.apply_remote_delta(ReplicationDelta::new("k".to_string(), second, src));
        let sv = bulk_byte(&h.execute_readonly(Command::Get("k".to_string())).await);
        let fv = bulk_byte(&h.execute_readonly(Command::HGet("k".to_string(), SDS::from_str("f"))).await);
        let gv = bulk_byte(&h.execute_readonly(Command::HGet("k".to_string(), SDS::from_str("g"))).await);
        let snap = h.get_snapshot().await;
        (snap.get("k").cloned(), sv, fv, gv, false)
    })
}
/// real actor: clock brought to `clock0`, the command through Execute, then SET k n: the time of that write's stamp
pub fn clock_after_command(clock0: u64, which: u8) -> u64 {
    use redis_sim::production::ReplicatedShardActor;
    use redis_sim::redis::{Command, SDS};
    use redis_sim::replication::config::ConsistencyLevel;
    use redis_sim::replication::lattice::{LamportClock, ReplicaId};
    use redis_sim::replication::state::{ReplicatedValue, ReplicationDelta};
    let rt = rt();
    rt.block_on(async move {
        let h = ReplicatedShardActor::spawn(ReplicaId(1), ConsistencyLevel::Eventual, 0);
        if clock0 > 0 {
            let c = LamportClock { time: clock0 - 1, replica_id: ReplicaId(2) };
            h.apply_remote_delta(ReplicationDelta::new("z".to_string(), ReplicatedValue::with_value(SDS::from_str("z"), c), ReplicaId(2)));
        }
        let _ = h.execute(crate::scenarios::c08::command_of(which)).await;
        let (_r, d) = h.execute(Command::set("k".to_string(), SDS::from_str("n"))).await;
        d.expect("SET produced no delta").value.timestamp.time
    })
}
