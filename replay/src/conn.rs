//! Native access to the real connection handler: the same questions the Kani build asks of the
//! S3-extracted functions are answered here by the real `OptimizedConnectionHandler` of /repo, and whole
//! pipelines can be driven through `run()` over an in-process duplex stream.
use bytes::Bytes;
use parking_lot::RwLock;
use redis_sim::observability::{DatadogConfig, Metrics};
use redis_sim::production::{BufferPoolAsync, ConnectionConfig, OptimizedConnectionHandler, ShardedActorState};
use redis_sim::security::AclManager;
use std::sync::Arc;
use tokio::io::{AsyncReadExt, AsyncWriteExt, DuplexStream};

fn rt() -> tokio::runtime::Runtime {
    tokio::runtime::Builder::new_multi_thread().worker_threads(2).enable_all().build().unwrap()
}
fn handler(server: DuplexStream, cfg: ConnectionConfig) -> OptimizedConnectionHandler<DuplexStream> {
    let state = ShardedActorState::with_shards(2);
    OptimizedConnectionHandler::new(
        server, state, "verif".to_string(), Arc::new(BufferPoolAsync::new(4, 8192)),
        Arc::new(Metrics::new(&DatadogConfig::default())), cfg, Arc::new(RwLock::new(AclManager::new())), None)
}
fn with_handler<R>(f: impl FnOnce(&mut OptimizedConnectionHandler<DuplexStream>) -> R) -> R {
    let rt = rt();
    let _g = rt.enter();
    let (_client, server) = tokio::io::duplex(1 << 16);
    let mut h = handler(server, ConnectionConfig::default());
    let r = f(&mut h);
    std::mem::forget(h);
    r
}
pub fn collect_get_keys(b: &[u8]) -> (Vec<Bytes>, usize, usize) {
    with_handler(|h| { h.verif_buffer_mut().clear(); h.verif_buffer_mut().extend_from_slice(b); let (k, c) = h.verif_collect_get_keys(); (k, c, h.verif_buffer_mut().len()) })
}
pub fn collect_set_pairs(b: &[u8]) -> (Vec<(Bytes, Bytes)>, usize, usize) {
    with_handler(|h| { h.verif_buffer_mut().clear(); h.verif_buffer_mut().extend_from_slice(b); let (k, c) = h.verif_collect_set_pairs(); (k, c, h.verif_buffer_mut().len()) })
}

pub struct Outcome { pub replies: Vec<u8>, pub closed: bool }
/// feed `chunks` (one write each, with a pause in between) to a fresh server connection and collect
/// everything it writes until it has been quiet for 300 ms
pub fn drive(chunks: &[Vec<u8>], cfg: ConnectionConfig) -> Outcome {
    let rt = rt();
    rt.block_on(async move {
        let (mut client, server) = tokio::io::duplex(1 << 20);
        let h = handler(server, cfg);
        let jh = tokio::spawn(h.run());
        let mut out = Vec::new();
        let mut buf = vec![0u8; 1 << 16];
        for c in chunks {
            client.write_all(c).await.unwrap();
            client.flush().await.unwrap();
            tokio::time::sleep(std::time::Duration::from_millis(60)).await;
        }
        let mut closed = false;
        loop {
            match tokio::time::timeout(std::time::Duration::from_millis(300), client.read(&mut buf)).await {
                Ok(Ok(0)) => { closed = true; break; }
                Ok(Ok(n)) => out.extend_from_slice(&buf[..n]),
                Ok(Err(_)) => { closed = true; break; }
                Err(_) => break,
            }
        }
        drop(client);
        let _ = tokio::time::timeout(std::time::Duration::from_millis(500), jh).await;
        Outcome { replies: out, closed }
    })
}
/// number of complete top-level RESP replies in `bytes` (simple strings, errors, integers, bulk strings)
pub fn count_replies(bytes: &[u8]) -> usize {
    let mut i = 0;
    let mut n = 0;
    while i < bytes.len() {
        let Some(eol) = bytes[i..].windows(2).position(|w| w == b"\r\n") else { break };
        let line = &bytes[i + 1..i + eol];
        match bytes[i] {
            b'$' => {
                let l: i64 = std::str::from_utf8(line).ok().and_then(|s| s.parse().ok()).unwrap_or(-1);
                i += eol + 2;
                if l >= 0 { i += l as usize + 2; }
            }
            _ => { i += eol + 2; }
        }
        if i <= bytes.len() { n += 1; }
    }
    n
}

/// C11 natively: build an object store with two segments (one delta each, stamped with the given maxima)
/// and a WAL holding one entry for key "walonly" stamped `ts`; run the real RecoveryManager::recover_with_wal
/// and report whether that entry is among the recovered deltas.
pub fn wal_only_entry_replayed(seg_max: [u64; 2], ts: u64) -> bool {
    use redis_sim::redis::SDS;
    use redis_sim::replication::lattice::{LamportClock, ReplicaId};
    use redis_sim::replication::state::{ReplicatedValue, ReplicationDelta};
    use redis_sim::streaming::{Compression, InMemoryObjectStore, InMemoryWalStore, Manifest, ManifestManager, ObjectStore, RecoveryManager, SegmentInfo, SegmentWriter, WalEntry, WalRotator};
    let mk = |key: &str, t: u64, r: u64| {
        let c = LamportClock { time: t, replica_id: ReplicaId(r) };
        ReplicationDelta::new(key.to_string(), ReplicatedValue::with_value(SDS::from_str("v"), c), ReplicaId(r))
    };
    let rt = rt();
    rt.block_on(async move {
        let store = InMemoryObjectStore::new();
        let mm = ManifestManager::new(store.clone(), "t");
        let mut manifest = Manifest::new(1);
        for (i, mx) in seg_max.iter().enumerate() {
            let mut w = SegmentWriter::new(Compression::None);
            w.write_delta(&mk(if i == 0 { "s0" } else { "s1" }, *mx, 1)).unwrap();
            let data = w.finish().unwrap();
            let key = format!("t/segments/segment-{:08}.seg", i);
            let size = data.len() as u64;
            store.put(&key, &data).await.unwrap();
            manifest.add_segment(SegmentInfo { id: i as u64, key, record_count: 1, size_bytes: size, min_timestamp: *mx, max_timestamp: *mx });
        }
        mm.save(&manifest).await.unwrap();
        let ws = InMemoryWalStore::new();
        let mut rot = WalRotator::new(ws.clone(), 1 << 20).unwrap();
        rot.append(&WalEntry::from_delta(&mk("walonly", ts, 2), ts).unwrap()).unwrap();
        rot.sync().unwrap();
        let reader = WalRotator::new(ws, 1 << 20).unwrap();
        let rec = RecoveryManager::new(store, "t", 1);
        let r = rec.recover_with_wal(&reader).await.unwrap();
        r.deltas.iter().any(|d| d.key == "walonly")
    })
}
