//! Environment-model stubs (DESIGN.md 1.2). Every one is listed in the evidence of each harness.
pub fn stub_format(_a: std::fmt::Arguments<'_>) -> String { String::new() }
pub fn fake_cpuid(_leaf: u32, _sub: u32) -> core::arch::x86_64::CpuidResult {
    core::arch::x86_64::CpuidResult { eax: 0, ebx: 0, ecx: 0, edx: 0 }
}
pub fn stub_interest(_c: &tracing_core::callsite::DefaultCallsite) -> tracing_core::subscriber::Interest {
    tracing_core::subscriber::Interest::never()
}
pub fn stub_is_enabled(_m: &'static tracing_core::Metadata<'static>, _i: tracing_core::subscriber::Interest) -> bool { false }
pub fn stub_dispatch<'a>(_m: &'static tracing_core::Metadata<'static>, _f: &'a tracing_core::field::ValueSet<'_>) where 'a: 'a {}
pub fn pl_lock_slow(_m: &parking_lot::RawMutex, _t: Option<std::time::Instant>) -> bool { true }
pub fn pl_unlock_slow(_m: &parking_lot::RawMutex, _f: bool) {}

// transparent hasher: DefaultHasher::{write,finish} record the byte stream instead of SipHash, so that
// "same hash for every key" <=> "same bytes fed to the hasher" is decidable. Counterexamples are
// replayed natively with the real SipHash.
pub static mut TH_ACC: u64 = 0;
pub static mut TH_N: u64 = 0;
pub fn th_write(_h: &mut std::collections::hash_map::DefaultHasher, bytes: &[u8]) {
    unsafe {
        let mut i = 0;
        while i < bytes.len() {
            // injective for streams of <= 7 bytes: base-257 positional encoding (+1 so that 0x00 counts)
            TH_ACC = TH_ACC.wrapping_mul(257).wrapping_add(bytes[i] as u64 + 1);
            TH_N += 1;
            i += 1;
        }
    }
}
pub fn th_finish(_h: &std::collections::hash_map::DefaultHasher) -> u64 {
    unsafe { let r = TH_ACC; TH_ACC = 0; TH_N = 0; r }
}
