//! Environment-model stubs (DESIGN.md 1.2). Every one is listed in the evidence of each harness.
pub fn stub_format(_a: std::fmt::Arguments<'_>) -> String { String::new() }
pub fn fake_cpuid(_leaf: u32, _sub: u32) -> core::arch::x86_64::CpuidResult {
    core::arch::x86_64::CpuidResult { eax: 0, ebx: 0, ecx: 0, edx: 0 }
}
pub fn stub_interest(_c: &tracing_core::callsite::DefaultCallsite) -> tracing_core::subscriber::Interest {
    tracing_core::subscriber::Interest::never()
}
pub fn stub_is_enabled(_m: &'static tracing_core::Metadata<'static>, _i: tracing_core::subscriber::Interest) -> bool { false }
pub fn stub_dispatch<'a>(_m: &'static tracing_core::Metadata<'static>, _f: &'a tracing_core::field::ValueSet<'_>) where 'a: 'a {}
pub fn pl_lock_slow(_m: &parking_lot::RawMutex, _t: Option<std::time::Instant>) -> bool { true }
pub fn pl_unlock_slow(_m: &parking_lot::RawMutex, _f: bool) {}

// transparent hasher: DefaultHasher::{write,write_str,finish} record the byte stream fed to the hasher
// instead of running SipHash. finish() returns a polynomial accumulator of the stream (what the code
// under test sees) and appends the finished stream to a log, so that a harness can ask the exact
// question "were the same bytes hashed?" (vs::streams_equal) without relying on the accumulator being
// collision-free. Counterexamples are replayed natively with the real SipHash.
pub const TH_CAP: usize = 48;
pub const TH_LOG: usize = 8;
pub static mut TH_CUR: [u8; TH_CAP] = [0; TH_CAP];
pub static mut TH_N: usize = 0;
pub static mut TH_ACC: u64 = 7;
pub static mut TH_STREAMS: [[u8; TH_CAP]; TH_LOG] = [[0; TH_CAP]; TH_LOG];
pub static mut TH_LENS: [usize; TH_LOG] = [0; TH_LOG];
pub static mut TH_FIN: usize = 0;
pub fn th_reset() { unsafe { TH_N = 0; TH_ACC = 7; TH_FIN = 0; } }
pub fn th_write(_h: &mut std::hash::DefaultHasher, bytes: &[u8]) {
    unsafe {
        let mut i = 0;
        while i < bytes.len() {
            TH_ACC = TH_ACC.rotate_left(5) ^ (bytes[i] as u64 + 1); // cheap for SAT (no multiplication); exact questions use the stream log
            if TH_N < TH_CAP { TH_CUR[TH_N] = bytes[i]; }
            TH_N += 1;
            i += 1;
        }
    }
}
pub fn th_write_str(h: &mut std::hash::DefaultHasher, s: &str) {
    // what SipHasher13::write_str does: the bytes, then 0xFF
    th_write(h, s.as_bytes());
    th_write(h, &[0xFF]);
}
pub fn th_finish(_h: &std::hash::DefaultHasher) -> u64 {
    unsafe {
        let r = TH_ACC;
        if TH_FIN < TH_LOG {
            TH_STREAMS[TH_FIN] = TH_CUR;
            TH_LENS[TH_FIN] = TH_N;
        }
        TH_FIN += 1;
        TH_ACC = 7;
        TH_N = 0;
        r
    }
}
/// finished streams i and j are byte-identical (and fit the log)
pub fn streams_equal(i: usize, j: usize) -> bool {
    unsafe {
        if i >= TH_LOG || j >= TH_LOG || i >= TH_FIN || j >= TH_FIN { return false; }
        if TH_LENS[i] != TH_LENS[j] || TH_LENS[i] > TH_CAP { return false; }
        let mut k = 0;
        while k < TH_LENS[i] { if TH_STREAMS[i][k] != TH_STREAMS[j][k] { return false; } k += 1; }
        true
    }
}
pub fn streams_finished() -> usize { unsafe { TH_FIN } }

/// `alloc` kind: Vec::with_capacity asserts that no pre-allocation exceeds what any buffer in the
/// harnesses could justify (all buffers are < 64 bytes), then allocates lazily.
pub fn stub_vec_with_capacity<T>(capacity: usize) -> Vec<T> {
    kani::assert(capacity <= 4096, "VP:alloc:bounded by buffer");
    Vec::new()
}

/// memchr::memchr -> reference linear scan (the word-at-a-time fallback is costly for SAT; same contract)
pub fn naive_memchr(n: u8, h: &[u8]) -> Option<usize> {
    let mut i = 0;
    while i < h.len() { if h[i] == n { return Some(i); } i += 1; }
    None
}

/// memchr's raw-pointer entry (what the `#[inline]` public wrapper calls): same linear scan
pub unsafe fn naive_memchr_raw(needle: u8, start: *const u8, end: *const u8) -> Option<*const u8> {
    let mut p = start;
    while p < end { if *p == needle { return Some(p); } p = p.add(1); }
    None
}

/// `ring` kind: HashRing's two private hash functions become lookups in a CONSTANT table selected by a scalar,
/// so that virtual-node positions are constants for CBMC (the sort in add_node is then concrete) while the
/// key's position is an arbitrary u64.
pub const RING_LAYOUTS: [[[u64; 2]; 5]; 3] = [
    [[0, 0], [100, 5000], [200, 6000], [300, 7000], [400, 8000]],
    [[0, 0], [10, 20], [30, 18446744073709551615], [0, 40], [50, 60]],
    [[0, 0], [9000, 100], [8000, 200], [7000, 300], [6000, 400]],
];
pub static mut RING_LAYOUT: usize = 0;
pub static mut RING_KEY: u64 = 0;
pub fn ring_vnode(node: redis_sim::replication::lattice::ReplicaId, idx: u32) -> u64 {
    let l = unsafe { RING_LAYOUT };
    RING_LAYOUTS[l % 3][(node.0 as usize) % 5][(idx as usize) & 1]
}
pub fn ring_key(_k: &str) -> u64 { unsafe { RING_KEY } }

/// `pointer::align_offset` may return usize::MAX for any input (documented contract). Kani otherwise computes it
/// from a SYMBOLIC address, which forks every word-at-a-time fast path in core (UTF-8 validation, memchr-style
/// scans, str comparison) on alignment: from_utf8 + parse::<i64> on two concrete bytes costs 17 s without this
/// stub and 0.5 s with it.
pub unsafe fn no_align_offset<T>(_p: *const T, _a: usize) -> usize { usize::MAX }

/// `str::to_uppercase` -> ASCII upper-casing (identical on ASCII input; non-ASCII characters, which the real function
/// maps through the Unicode tables, are left unchanged: the harnesses only feed ASCII names and keywords, and both
/// parsers call the same function). The Unicode path builds its result char by char through tables, after which
/// the command name is no longer a constant for CBMC and the parsers' 100-arm `match` is explored arm by arm.
pub fn ascii_upper(s: &str) -> String { let mut o = String::from(s); o.make_ascii_uppercase(); o }

/// wall-clock reads: a fixed instant (the code under test only stores it or takes differences)
pub fn instant_zero() -> std::time::Instant { unsafe { std::mem::zeroed() } }
pub fn systime_zero() -> std::time::SystemTime { std::time::UNIX_EPOCH }

/// persistence harnesses (C12/C13): the encoders are C14's subject; here a record is four fixed bytes and a
/// manifest is "{}" - what is decided is the order and the fault handling of the store operations around them
pub fn stub_bincode_serialize<T: ?Sized + serde::Serialize>(_v: &T) -> bincode::Result<Vec<u8>> { Ok(vec![1, 2, 3, 4]) }
pub fn stub_json_pretty<T: ?Sized + serde::Serialize>(_v: &T) -> serde_json::Result<Vec<u8>> { Ok(vec![b'{', b'}']) }

/// `ascii` kind (C16 parser-arm harnesses): String::from_utf8_lossy restricted to ASCII input, where it is the
/// identity (Cow::Borrowed of the same bytes). Non-ASCII argument bytes are assumed away here (stated in the
/// evidence); Utf8Chunks::next on symbolic bytes is what kept a one-argument frame from finishing in 15 min.
pub fn ascii_lossy(v: &[u8]) -> std::borrow::Cow<'_, str> {
    let mut i = 0;
    while i < v.len() { kani::assume(v[i] < 0x80); i += 1; }
    std::borrow::Cow::Borrowed(unsafe { std::str::from_utf8_unchecked(v) })
}

/// `noexec` stub kind: the executor's reaction to a command is not part of the question (C08 checkpoint leg asks about
/// stamps in the replication state only)
pub fn noop_execute(_ex: &mut redis_sim::redis::CommandExecutor, _cmd: &redis_sim::redis::Command) -> redis_sim::redis::RespValue {
    redis_sim::redis::RespValue::Integer(0)
}

/// `recexec` stub kind: CommandExecutor::execute records what it was asked to do (kind, first byte of the field or
/// value, first byte of the value) instead of doing it: 1 SET v, 2 DEL, 3 HSET f v, 4 HDEL f, 9 anything else.
pub static mut REC: [(u8, u8, u8); 6] = [(0, 0, 0); 6];
pub static mut REC_N: usize = 0;
fn rec_push(k: u8, a: u8, b: u8) { unsafe { if REC_N < 6 { REC[REC_N] = (k, a, b); } REC_N += 1; } }
fn b0(s: &redis_sim::redis::SDS) -> u8 { let b = s.as_bytes(); if b.len() > 0 { b[0] } else { 0 } }
pub fn rec_execute(_ex: &mut redis_sim::redis::CommandExecutor, cmd: &redis_sim::redis::Command) -> redis_sim::redis::RespValue {
    use redis_sim::redis::Command;
    match cmd {
        Command::Set { value, .. } => rec_push(1, b0(value), 0),
        Command::Del(_) => rec_push(2, 0, 0),
        Command::HSet(_, pairs) => { if pairs.len() > 0 { rec_push(3, b0(&pairs[0].0), b0(&pairs[0].1)); } if pairs.len() > 1 { rec_push(3, b0(&pairs[1].0), b0(&pairs[1].1)); } if pairs.len() > 2 { rec_push(9, 0, 0); } }
        Command::HDel(_, fields) => { if fields.len() > 0 { rec_push(4, b0(&fields[0]), 0); } if fields.len() > 1 { rec_push(4, b0(&fields[1]), 0); } if fields.len() > 2 { rec_push(9, 0, 0); } }
        _ => rec_push(9, 0, 0),
    }
    redis_sim::redis::RespValue::Integer(0)
}

/// `ring` stub kind: no vector of the ring code has to grow (get_replicas_with_rf allocates `Vec::with_capacity(n)` and
/// pushes at most n ids). CBMC cannot see that once the length is a symbolic value, and then encodes the reallocation
/// (a copy of symbolic size - the one location that made every rf >= 2 ring harness run out of memory). A growth that
/// does happen is reported as a failed check (and then does not reproduce natively -> "not decided", never a pass).
pub unsafe fn no_realloc(_p: *mut u8, _l: std::alloc::Layout, _n: usize) -> *mut u8 {
    panic!("verif: a vector grew beyond its initial capacity (reallocation is not modelled in this harness)")
}
