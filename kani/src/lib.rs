//! Kani entry points. Scenario bodies live in /verif/scenarios and are shared with the native
//! replay crate (/verif/replay); here every value source is `kani::any()`.
#![recursion_limit = "1024"]
#![allow(unused, non_snake_case, static_mut_refs)]

#[cfg(kani)]
pub mod vs {
    //! value source = solver variables
    #[inline(always)] pub fn u8() -> u8 { kani::any() }
    #[inline(always)] pub fn u16() -> u16 { kani::any() }
    #[inline(always)] pub fn u32() -> u32 { kani::any() }
    #[inline(always)] pub fn u64() -> u64 { kani::any() }
    #[inline(always)] pub fn i64() -> i64 { kani::any() }
    #[inline(always)] pub fn usize() -> usize { kani::any() }
    #[inline(always)] pub fn isize() -> isize { kani::any() }
    #[inline(always)] pub fn bool() -> bool { kani::any() }
    #[inline(always)] pub fn assume(c: bool) { kani::assume(c) }
    /// natively: no single allocation request exceeded the limit; under Kani the `alloc` stub kind asserts it
    #[inline(always)] pub fn alloc_ok() -> bool { true }
    /// transparent-hasher log (hasher stub kind): were the same bytes fed to hashers #i and #j?
    pub fn streams_equal(i: usize, j: usize) -> bool { crate::stubs::streams_equal(i, j) }
    pub fn streams_reset() { crate::stubs::th_reset() }
    /// ring stub kind: position table for virtual nodes (node id 0..=4, index 0..=1) and the key position
    pub fn ring_set(layout: usize, key_pos: u64) { unsafe { crate::stubs::RING_LAYOUT = layout; crate::stubs::RING_KEY = key_pos; } }
    pub const NATIVE: bool = false;
}

#[cfg(kani)]
// assert WITHOUT the implicit assume of kani::assert: the check is made on a forked branch that ends,
// so that one failing check does not hide the others behind it (every failing role is reported).
macro_rules! vcheck { ($c:expr, $l:expr) => {{ let c: bool = $c; if kani::any::<bool>() { kani::assert(c, concat!("VP:", $l)); kani::assume(false); } }}; }
// cover points cost one extra SAT call each (CBMC solves again per satisfied cover; on a 4M-variable formula that is
// minutes, and it pushed the ring harness over its memory limit). They are compiled in only with `--features covers`
// (manual runs); vacuity is guarded by the per-property twin harness, whose final check must FAIL.
#[cfg(all(kani, feature = "covers"))]
macro_rules! vcover { ($c:expr, $l:expr) => { kani::cover($c, concat!("VC:", $l)) }; }
#[cfg(all(kani, not(feature = "covers")))]
macro_rules! vcover { ($c:expr, $l:expr) => { { let _ = &$c; } }; }

/// C16: the two extracted arm functions of a command name (S7), as closures over the complete element vector
#[cfg(kani)]
macro_rules! c16arm { ($n:ident) => { (
    |e: Vec<redis_sim::redis::RespValue>| { let r = redis_sim::redis::verif_arms_sim::$n(&e, String::new()); std::mem::forget(e); r },
    |e: Vec<redis_sim::redis::RespValueZeroCopy>| { let r = redis_sim::redis::verif_arms_prod::$n(&e, String::new()); std::mem::forget(e); r },
) }; }

#[cfg(kani)]
pub mod coll { pub use verif_collections::{HashMap, HashSet}; }

/// environment access that differs between the two builds: under Kani the S3-extracted free functions of
/// the staged copy; natively the real OptimizedConnectionHandler methods (see /verif/replay/src/conn.rs)
#[cfg(kani)]
pub mod env {
    use bytes::{Bytes, BytesMut};
    fn buf_of(b: &[u8]) -> BytesMut { let mut m = BytesMut::with_capacity(64); m.extend_from_slice(b); m }
    /// -> (keys, count, bytes left in the buffer)
    pub fn collect_get_keys(b: &[u8]) -> (Vec<Bytes>, usize, usize) {
        let mut m = buf_of(b);
        let (k, c) = redis_sim::production::verif_collect_get_keys(&mut m);
        let left = m.len();
        std::mem::forget(m);
        (k, c, left)
    }
    pub fn collect_set_pairs(b: &[u8]) -> (Vec<(Bytes, Bytes)>, usize, usize) {
        let mut m = buf_of(b);
        let (k, c) = redis_sim::production::verif_collect_set_pairs(&mut m);
        let left = m.len();
        std::mem::forget(m);
        (k, c, left)
    }
    /// Ok((key, consumed)) | Err(1 = need more data) | Err(2 = not a fast-path frame)
    pub fn fast_get_parse(b: &[u8]) -> (Result<(Bytes, usize), u8>, usize) {
        let mut m = buf_of(b);
        let r = redis_sim::production::verif_fast_get_parse(&mut m);
        let left = m.len();
        std::mem::forget(m);
        (r, left)
    }
    pub fn fast_set_parse(b: &[u8]) -> (Result<(Bytes, Bytes, usize), u8>, usize) {
        let mut m = buf_of(b);
        let r = redis_sim::production::verif_fast_set_parse(&mut m);
        let left = m.len();
        std::mem::forget(m);
        (r, left)
    }
    /// C11: would recover_with_wal() replay a WAL entry stamped `ts` that is in no segment, when the listed
    /// segments have these maximum stamps? (Kani: S5-extracted threshold; natively: the real recovery)
    pub fn wal_only_entry_replayed(seg_max: [u64; 2], ts: u64) -> bool {
        use redis_sim::streaming::{Manifest, RecoveredState, RecoveryStats};
        use redis_sim::streaming::manifest::SegmentInfo;
        let mut m = Manifest::new(1);
        m.segments.push(SegmentInfo { id: 0, key: String::new(), record_count: 1, size_bytes: 1, min_timestamp: 0, max_timestamp: seg_max[0] });
        m.segments.push(SegmentInfo { id: 1, key: String::new(), record_count: 1, size_bytes: 1, min_timestamp: 0, max_timestamp: seg_max[1] });
        let rs = RecoveredState { manifest: m, checkpoint_state: None, deltas: Vec::new(), stats: RecoveryStats::default() };
        let t = redis_sim::streaming::recovery::verif_wal_replay_threshold(&rs);
        std::mem::forget(rs);
        // WalRotator::recover_entries_after keeps entries with stamp >= threshold (checked by c11::entries_after)
        ts >= t
    }
    /// C13: what recovery returns for key "k" before and after a compaction of `inside` (one update per compacted
    /// segment), with an optional update `outside` the compaction; TTL 0, clock = `now` (so the tombstone cutoff is
    /// `now`). Kani: S8-extracted statements of compact(); natively: real compact() + real recover().
    /// -> (before, after, key survives in the compacted segment, tombstones dropped)
    pub fn compact_then_recover(inside: [Option<redis_sim::replication::state::ReplicationDelta>; 3], outside: Option<redis_sim::replication::state::ReplicationDelta>, now: u64)
        -> (Option<redis_sim::replication::state::ReplicatedValue>, Option<redis_sim::replication::state::ReplicatedValue>, bool, u64) {
        use redis_sim::replication::state::ReplicatedValue;
        let mut before: Option<ReplicatedValue> = match &outside { Some(d) => Some(d.value.clone()), None => None };
        macro_rules! acc { ($i:literal) => { if let Some(d) = &inside[$i] { before = Some(match before { Some(b) => { let m = b.merge(&d.value); std::mem::forget(b); m } None => d.value.clone() }); } } }
        acc!(0); acc!(1); acc!(2);
        let [d0, d1, d2] = inside;
        let (mut map, dropped) = redis_sim::streaming::compaction::verif_compact_fold(d0, d1, d2, now, std::time::Duration::ZERO);
        let surv = map.remove("k");
        let survives = surv.is_some();
        // every input is an LWW value without a vector clock; a survivor of another shape is reported. The survivor is
        // REBUILT from its parts with a literal `CrdtValue::Lww`: a value that comes out of the map has a discriminant
        // CBMC no longer knows, and the merge below would otherwise be explored under every CRDT variant.
        let mut odd = false;
        let surv_v: Option<ReplicatedValue> = match surv {
            Some(s) => {
                let redis_sim::replication::state::ReplicationDelta { key, value, source_replica } = s;
                let ReplicatedValue { crdt, vector_clock, expiry_ms, timestamp, replication_factor } = value;
                let r = match (crdt, vector_clock) {
                    (redis_sim::replication::state::CrdtValue::Lww(l), None) => Some(ReplicatedValue { crdt: redis_sim::replication::state::CrdtValue::Lww(l), vector_clock: None, expiry_ms, timestamp, replication_factor }),
                    (c, v) => { odd = true; std::mem::forget((c, v)); None }
                };
                std::mem::forget(key);
                r
            }
            None => None,
        };
        if odd { std::mem::forget((map, surv_v, outside, before)); return (None, None, false, u64::MAX); }
        let after = match (outside, surv_v) {
            (Some(o), Some(s)) => { let m = o.value.merge(&s); std::mem::forget((o, s)); Some(m) }
            (Some(o), None) => Some(o.value),
            (None, Some(s)) => Some(s),
            (None, None) => None,
        };
        std::mem::forget(map);
        (before, after, survives, dropped)
    }
    /// C11: ids of the listed segments that recover() loads (S9-extracted statements; natively the real recover()
    /// on a store whose segment i holds one update of key "s<i>")
    pub fn recover_plan(ids: &[u64], min_ts: &[u64], ckpt_last: Option<u64>) -> Vec<u64> {
        use redis_sim::streaming::{Manifest, manifest::SegmentInfo};
        let mut m = Manifest::new(1);
        let mut i = 0;
        while i < ids.len() {
            m.segments.push(SegmentInfo { id: ids[i], key: String::new(), record_count: 1, size_bytes: 1, min_timestamp: min_ts[i], max_timestamp: min_ts[i] });
            i += 1;
        }
        let ck: Option<crate::coll::HashMap<String, redis_sim::replication::state::ReplicatedValue>> = match ckpt_last { Some(_) => Some(crate::coll::HashMap::new()), None => None };
        let plan = redis_sim::streaming::recovery::verif_recover_segment_plan(&m, &ck, match ckpt_last { Some(l) => l, None => 0 });
        std::mem::forget((m, ck));
        plan
    }
    /// C08: a checkpoint entry (key "k") enters a shard the way ReplicatedShardActor does on restart, then the shard
    /// records a local write of "k"; returns the stamp of that write's delta and the value a peer holding the
    /// recovered entry serves after merging the delta. (Kani: S10-extracted arm, executor calls are no-ops; natively:
    /// the real actor over its mailbox.)
    pub fn recovered_then_write(clock0: u64, recovered: redis_sim::replication::state::ReplicatedValue, nb: u8)
        -> (redis_sim::replication::lattice::LamportClock, Option<u8>) {
        use redis_sim::replication::config::ConsistencyLevel;
        use redis_sim::replication::lattice::ReplicaId;
        use redis_sim::replication::state::ShardReplicaState;
        let mut st = ShardReplicaState::new(ReplicaId(1), ConsistencyLevel::Eventual);
        st.lamport_clock.time = clock0;
        let mut ex = redis_sim::redis::CommandExecutor::verif_new_bare();
        let peer = recovered.clone();
        redis_sim::production::verif_apply_recovered_state(&mut st, &mut ex, "k".to_string(), recovered);
        let d = st.record_write("k".to_string(), crate::scenarios::util::sds1(nb), None);
        let on_peer = peer.merge(&d.value);
        let served = on_peer.get().map(|s| s.as_bytes()[0]);
        let ts = d.value.timestamp;
        std::mem::forget((st, ex, d, on_peer, peer));
        (ts, served)
    }
    /// C06 glue: what the executor ends up serving for key "k" (string value, hash fields "f" and "g") after the deltas
    /// `first` (optional) and `second` have gone through ReplicatedShardActor::apply_remote_delta_impl, together with
    /// the replication state of "k". Kani: S11-extracted method; the executor is a recorder (stub kind recexec) whose
    /// log is replayed on a three-cell model of SET/DEL/HSET/HDEL. Natively: the real actor and executor.
    /// -> (replication state of k, served string, served f, served g, executor was asked something else)
    pub fn glue_apply(first: Option<redis_sim::replication::state::ReplicatedValue>, second: redis_sim::replication::state::ReplicatedValue)
        -> (Option<redis_sim::replication::state::ReplicatedValue>, Option<u8>, Option<u8>, Option<u8>, bool) {
        use redis_sim::replication::config::ConsistencyLevel;
        use redis_sim::replication::lattice::ReplicaId;
        use redis_sim::replication::state::{ReplicationDelta, ShardReplicaState};
        let mut st = ShardReplicaState::new(ReplicaId(1), ConsistencyLevel::Eventual);
        let mut ex = redis_sim::redis::CommandExecutor::verif_new_bare();
        let (mut sv, mut fv, mut gv, mut other) = (None, None, None, false);
        unsafe { crate::stubs::REC_N = 0; }
        macro_rules! replay { () => { unsafe {
            macro_rules! one { ($i:literal) => { if crate::stubs::REC_N > $i { let (k, a, b) = crate::stubs::REC[$i]; match k {
                1 => { sv = Some(a); fv = None; gv = None; }
                2 => { sv = None; fv = None; gv = None; }
                3 => { sv = None; if a == b'f' { fv = Some(b); } else if a == b'g' { gv = Some(b); } else { other = true; } }
                4 => { if a == b'f' { fv = None; } else if a == b'g' { gv = None; } else { other = true; } }
                _ => { other = true; } } } } }
            one!(0); one!(1); one!(2); one!(3); one!(4); one!(5);
            if crate::stubs::REC_N > 6 { other = true; }
            crate::stubs::REC_N = 0;
        } } }
        if let Some(v) = first {
            let src = ReplicaId(v.timestamp.replica_id.0);
            redis_sim::production::verif_apply_remote_delta_impl(&mut st, &mut ex, ReplicationDelta::new("k".to_string(), v, src));
            replay!();
        }
        let src = ReplicaId(second.timestamp.replica_id.0);
        redis_sim::production::verif_apply_remote_delta_impl(&mut st, &mut ex, ReplicationDelta::new("k".to_string(), second, src));
        replay!();
        let merged = st.replicated_keys.get("k").cloned();
        std::mem::forget((st, ex));
        (merged, sv, fv, gv, other)
    }
    /// C08: the shard's Lamport clock after `cmd` went through ReplicatedShardActor::record_mutation_post_execute on a
    /// shard whose clock read `clock0` (the executor holds nothing). Natively: the real actor, observed through the stamp
    /// of the next write.
    pub fn clock_after_command(clock0: u64, which: u8) -> u64 {
        use redis_sim::redis::Command;
        use redis_sim::replication::config::ConsistencyLevel;
        use redis_sim::replication::lattice::ReplicaId;
        use redis_sim::replication::state::ShardReplicaState;
        let mut st = ShardReplicaState::new(ReplicaId(1), ConsistencyLevel::Eventual);
        st.lamport_clock.time = clock0;
        let mut ex = redis_sim::redis::CommandExecutor::verif_new_bare();
        let cmd = crate::scenarios::c08::command_of(which);
        let d = redis_sim::production::verif_record_mutation_post_execute(&mut st, &mut ex, &cmd);
        let d2 = st.record_write("k".to_string(), crate::scenarios::util::sds1(b'n'), None);
        let t = d2.value.timestamp.time;
        std::mem::forget((st, ex, cmd, d, d2));
        t
    }
    /// does run() answer the `count` GETs its collector consumed from this buffer, at this threshold?
    /// (Kani: run()'s own admission condition, extracted by S3; natively: the real run() over a duplex stream)
    pub fn consumed_gets_answered(_buffer: &[u8], count: usize, threshold: usize) -> bool {
        redis_sim::production::verif_batch_admitted(count, 0, threshold).0
    }
}

#[cfg(kani)]
pub mod stubs;

#[cfg(kani)]
macro_rules! registry {
    ($( $name:ident, $prop:literal, $tier:ident, $unwind:literal, $kind:ident, $cap:literal => $body:expr; )*) => {
        $( registry!(@one $name, $unwind, $kind, $body); )*
    };
    (@one $name:ident, $unwind:literal, plain, $body:expr) => {
        #[kani::proof]
        #[kani::unwind($unwind)]
        #[kani::stub(alloc::fmt::format, crate::stubs::stub_format)]
        #[kani::stub(core::ptr::align_offset, crate::stubs::no_align_offset)]
        #[kani::stub(str::to_uppercase, crate::stubs::ascii_upper)]
        #[kani::stub(core::arch::x86_64::__cpuid_count, crate::stubs::fake_cpuid)]
        #[kani::stub(tracing_core::callsite::DefaultCallsite::interest, crate::stubs::stub_interest)]
        #[kani::stub(tracing::__macro_support::__is_enabled, crate::stubs::stub_is_enabled)]
        #[kani::stub(tracing_core::event::Event::dispatch, crate::stubs::stub_dispatch)]
        #[kani::stub(parking_lot::raw_mutex::RawMutex::lock_slow, crate::stubs::pl_lock_slow)]
        #[kani::stub(parking_lot::raw_mutex::RawMutex::unlock_slow, crate::stubs::pl_unlock_slow)]
        pub fn $name() { $body }
    };
    (@one $name:ident, $unwind:literal, ascii, $body:expr) => {
        #[kani::proof]
        #[kani::unwind($unwind)]
        #[kani::stub(alloc::fmt::format, crate::stubs::stub_format)]
        #[kani::stub(core::ptr::align_offset, crate::stubs::no_align_offset)]
        #[kani::stub(str::to_uppercase, crate::stubs::ascii_upper)]
        #[kani::stub(core::arch::x86_64::__cpuid_count, crate::stubs::fake_cpuid)]
        #[kani::stub(tracing_core::callsite::DefaultCallsite::interest, crate::stubs::stub_interest)]
        #[kani::stub(tracing::__macro_support::__is_enabled, crate::stubs::stub_is_enabled)]
        #[kani::stub(tracing_core::event::Event::dispatch, crate::stubs::stub_dispatch)]
        #[kani::stub(parking_lot::raw_mutex::RawMutex::lock_slow, crate::stubs::pl_lock_slow)]
        #[kani::stub(parking_lot::raw_mutex::RawMutex::unlock_slow, crate::stubs::pl_unlock_slow)]
        #[kani::stub(alloc::string::String::from_utf8_lossy, crate::stubs::ascii_lossy)]
        pub fn $name() { $body }
    };
    (@one $name:ident, $unwind:literal, ring, $body:expr) => {
        #[kani::proof]
        #[kani::unwind($unwind)]
        #[kani::stub(alloc::fmt::format, crate::stubs::stub_format)]
        #[kani::stub(core::ptr::align_offset, crate::stubs::no_align_offset)]
        #[kani::stub(str::to_uppercase, crate::stubs::ascii_upper)]
        #[kani::stub(core::arch::x86_64::__cpuid_count, crate::stubs::fake_cpuid)]
        #[kani::stub(tracing_core::callsite::DefaultCallsite::interest, crate::stubs::stub_interest)]
        #[kani::stub(tracing::__macro_support::__is_enabled, crate::stubs::stub_is_enabled)]
        #[kani::stub(tracing_core::event::Event::dispatch, crate::stubs::stub_dispatch)]
        #[kani::stub(parking_lot::raw_mutex::RawMutex::lock_slow, crate::stubs::pl_lock_slow)]
        #[kani::stub(parking_lot::raw_mutex::RawMutex::unlock_slow, crate::stubs::pl_unlock_slow)]
        #[kani::stub(redis_sim::replication::hash_ring::HashRing::hash_virtual_node, crate::stubs::ring_vnode)]
        #[kani::stub(redis_sim::replication::hash_ring::HashRing::hash_key, crate::stubs::ring_key)]
        #[kani::stub(alloc::alloc::realloc, crate::stubs::no_realloc)]
        pub fn $name() { $body }
    };
    (@one $name:ident, $unwind:literal, clock, $body:expr) => {
        #[kani::proof]
        #[kani::unwind($unwind)]
        #[kani::stub(alloc::fmt::format, crate::stubs::stub_format)]
        #[kani::stub(core::ptr::align_offset, crate::stubs::no_align_offset)]
        #[kani::stub(str::to_uppercase, crate::stubs::ascii_upper)]
        #[kani::stub(core::arch::x86_64::__cpuid_count, crate::stubs::fake_cpuid)]
        #[kani::stub(tracing_core::callsite::DefaultCallsite::interest, crate::stubs::stub_interest)]
        #[kani::stub(tracing::__macro_support::__is_enabled, crate::stubs::stub_is_enabled)]
        #[kani::stub(tracing_core::event::Event::dispatch, crate::stubs::stub_dispatch)]
        #[kani::stub(parking_lot::raw_mutex::RawMutex::lock_slow, crate::stubs::pl_lock_slow)]
        #[kani::stub(parking_lot::raw_mutex::RawMutex::unlock_slow, crate::stubs::pl_unlock_slow)]
        #[kani::stub(std::time::Instant::now, crate::stubs::instant_zero)]
        #[kani::stub(std::time::SystemTime::now, crate::stubs::systime_zero)]
        pub fn $name() { $body }
    };
    (@one $name:ident, $unwind:literal, persist, $body:expr) => {
        #[kani::proof]
        #[kani::unwind($unwind)]
        #[kani::stub(alloc::fmt::format, crate::stubs::stub_format)]
        #[kani::stub(core::ptr::align_offset, crate::stubs::no_align_offset)]
        #[kani::stub(str::to_uppercase, crate::stubs::ascii_upper)]
        #[kani::stub(core::arch::x86_64::__cpuid_count, crate::stubs::fake_cpuid)]
        #[kani::stub(tracing_core::callsite::DefaultCallsite::interest, crate::stubs::stub_interest)]
        #[kani::stub(tracing::__macro_support::__is_enabled, crate::stubs::stub_is_enabled)]
        #[kani::stub(tracing_core::event::Event::dispatch, crate::stubs::stub_dispatch)]
        #[kani::stub(parking_lot::raw_mutex::RawMutex::lock_slow, crate::stubs::pl_lock_slow)]
        #[kani::stub(parking_lot::raw_mutex::RawMutex::unlock_slow, crate::stubs::pl_unlock_slow)]
        #[kani::stub(std::time::Instant::now, crate::stubs::instant_zero)]
        #[kani::stub(std::time::SystemTime::now, crate::stubs::systime_zero)]
        #[kani::stub(bincode::serialize, crate::stubs::stub_bincode_serialize)]
        #[kani::stub(serde_json::to_vec_pretty, crate::stubs::stub_json_pretty)]
        pub fn $name() { $body }
    };
    (@one $name:ident, $unwind:literal, small, $body:expr) => {
        #[kani::proof]
        #[kani::unwind($unwind)]
        #[kani::stub(alloc::fmt::format, crate::stubs::stub_format)]
        #[kani::stub(core::ptr::align_offset, crate::stubs::no_align_offset)]
        #[kani::stub(str::to_uppercase, crate::stubs::ascii_upper)]
        #[kani::stub(core::arch::x86_64::__cpuid_count, crate::stubs::fake_cpuid)]
        #[kani::stub(tracing_core::callsite::DefaultCallsite::interest, crate::stubs::stub_interest)]
        #[kani::stub(tracing::__macro_support::__is_enabled, crate::stubs::stub_is_enabled)]
        #[kani::stub(tracing_core::event::Event::dispatch, crate::stubs::stub_dispatch)]
        #[kani::stub(parking_lot::raw_mutex::RawMutex::lock_slow, crate::stubs::pl_lock_slow)]
        #[kani::stub(parking_lot::raw_mutex::RawMutex::unlock_slow, crate::stubs::pl_unlock_slow)]
        #[kani::stub(redis_sim::redis::CommandExecutor::execute, redis_sim::redis::CommandExecutor::verif_execute_small)]
        pub fn $name() { $body }
    };
    (@one $name:ident, $unwind:literal, noexec, $body:expr) => {
        #[kani::proof]
        #[kani::unwind($unwind)]
        #[kani::stub(alloc::fmt::format, crate::stubs::stub_format)]
        #[kani::stub(core::ptr::align_offset, crate::stubs::no_align_offset)]
        #[kani::stub(str::to_uppercase, crate::stubs::ascii_upper)]
        #[kani::stub(core::arch::x86_64::__cpuid_count, crate::stubs::fake_cpuid)]
        #[kani::stub(tracing_core::callsite::DefaultCallsite::interest, crate::stubs::stub_interest)]
        #[kani::stub(tracing::__macro_support::__is_enabled, crate::stubs::stub_is_enabled)]
        #[kani::stub(tracing_core::event::Event::dispatch, crate::stubs::stub_dispatch)]
        #[kani::stub(parking_lot::raw_mutex::RawMutex::lock_slow, crate::stubs::pl_lock_slow)]
        #[kani::stub(parking_lot::raw_mutex::RawMutex::unlock_slow, crate::stubs::pl_unlock_slow)]
        #[kani::stub(redis_sim::redis::CommandExecutor::execute, crate::stubs::noop_execute)]
        pub fn $name() { $body }
    };
    (@one $name:ident, $unwind:literal, recexec, $body:expr) => {
        #[kani::proof]
        #[kani::unwind($unwind)]
        #[kani::stub(alloc::fmt::format, crate::stubs::stub_format)]
        #[kani::stub(core::ptr::align_offset, crate::stubs::no_align_offset)]
        #[kani::stub(str::to_uppercase, crate::stubs::ascii_upper)]
        #[kani::stub(core::arch::x86_64::__cpuid_count, crate::stubs::fake_cpuid)]
        #[kani::stub(tracing_core::callsite::DefaultCallsite::interest, crate::stubs::stub_interest)]
        #[kani::stub(tracing::__macro_support::__is_enabled, crate::stubs::stub_is_enabled)]
        #[kani::stub(tracing_core::event::Event::dispatch, crate::stubs::stub_dispatch)]
        #[kani::stub(parking_lot::raw_mutex::RawMutex::lock_slow, crate::stubs::pl_lock_slow)]
        #[kani::stub(parking_lot::raw_mutex::RawMutex::unlock_slow, crate::stubs::pl_unlock_slow)]
        #[kani::stub(redis_sim::redis::CommandExecutor::execute, crate::stubs::rec_execute)]
        pub fn $name() { $body }
    };
    (@one $name:ident, $unwind:literal, alloc, $body:expr) => {
        #[kani::proof]
        #[kani::unwind($unwind)]
        #[kani::stub(alloc::fmt::format, crate::stubs::stub_format)]
        #[kani::stub(core::ptr::align_offset, crate::stubs::no_align_offset)]
        #[kani::stub(str::to_uppercase, crate::stubs::ascii_upper)]
        #[kani::stub(core::arch::x86_64::__cpuid_count, crate::stubs::fake_cpuid)]
        #[kani::stub(tracing_core::callsite::DefaultCallsite::interest, crate::stubs::stub_interest)]
        #[kani::stub(tracing::__macro_support::__is_enabled, crate::stubs::stub_is_enabled)]
        #[kani::stub(tracing_core::event::Event::dispatch, crate::stubs::stub_dispatch)]
        #[kani::stub(parking_lot::raw_mutex::RawMutex::lock_slow, crate::stubs::pl_lock_slow)]
        #[kani::stub(parking_lot::raw_mutex::RawMutex::unlock_slow, crate::stubs::pl_unlock_slow)]
        #[kani::stub(alloc::vec::Vec::with_capacity, crate::stubs::stub_vec_with_capacity)]
        pub fn $name() { $body }
    };
    (@one $name:ident, $unwind:literal, hasher, $body:expr) => {
        #[kani::proof]
        #[kani::unwind($unwind)]
        #[kani::stub(alloc::fmt::format, crate::stubs::stub_format)]
        #[kani::stub(core::ptr::align_offset, crate::stubs::no_align_offset)]
        #[kani::stub(str::to_uppercase, crate::stubs::ascii_upper)]
        #[kani::stub(core::arch::x86_64::__cpuid_count, crate::stubs::fake_cpuid)]
        #[kani::stub(tracing_core::callsite::DefaultCallsite::interest, crate::stubs::stub_interest)]
        #[kani::stub(tracing::__macro_support::__is_enabled, crate::stubs::stub_is_enabled)]
        #[kani::stub(tracing_core::event::Event::dispatch, crate::stubs::stub_dispatch)]
        #[kani::stub(parking_lot::raw_mutex::RawMutex::lock_slow, crate::stubs::pl_lock_slow)]
        #[kani::stub(parking_lot::raw_mutex::RawMutex::unlock_slow, crate::stubs::pl_unlock_slow)]
        #[kani::stub(<std::hash::DefaultHasher as std::hash::Hasher>::write, crate::stubs::th_write)]
        #[kani::stub(<std::hash::DefaultHasher as std::hash::Hasher>::write_str, crate::stubs::th_write_str)]
        #[kani::stub(<std::hash::DefaultHasher as std::hash::Hasher>::finish, crate::stubs::th_finish)]
        pub fn $name() { $body }
    };
}

#[cfg(kani)]
#[path = "../../scenarios/mod.rs"]
pub mod scenarios;
