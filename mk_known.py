#!/usr/bin/env python3
"""mk_known.py <id> <replay.json> <summary...> — append an open finding (with its witness) to known_findings.json"""
import json, sys
fid, path, summary = sys.argv[1], sys.argv[2], " ".join(sys.argv[3:])
rp = json.load(open(path))
kf = json.load(open("/verif/known_findings.json"))
kf["findings"] = [f for f in kf["findings"] if f["id"] != fid]
kf["findings"].append(dict(id=fid, property=rp["property"], status="open", role=rp["role"], harnesses=[rp["harness"]],
                           scenario=rp["scenario"], summary=summary, witness=dict(harness=rp["harness"], vals=rp["vals"])))
kf["findings"].sort(key=lambda f: f["id"])
json.dump(kf, open("/verif/known_findings.json", "w"), indent=1)
print("recorded", fid)
