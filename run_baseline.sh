#!/bin/bash
# Runs the repository's pinned test suite (hook feature OFF) — the BASELINE.json command.
# RUSTC_WRAPPER is cleared because /repo/.cargo/config.toml names sccache, which is not installed here.
cd /repo && export RUSTC_WRAPPER= CARGO_NET_OFFLINE=true && { cargo nextest run --workspace --no-fail-fast --tool-config-file pb:/w/lib/nextest.toml --profile pb --test-threads 8 --offline "$@" || cargo test --workspace --no-fail-fast --offline; }
