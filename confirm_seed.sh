#!/bin/bash
# confirm_seed.sh <worktree> : (1) demo fails with the change, (2) existing suite passes with the change,
# (3) demo passes without the change. Writes <worktree>/OUT/confirm.log
wt=$1; cd $wt || exit 2
export RUSTC_WRAPPER= CARGO_NET_OFFLINE=true
log=$wt/OUT/confirm.log; : > $log
git diff -- src > /tmp/$$.cur.diff
if ! diff -q <(git diff -- src) OUT/patch.diff >/dev/null; then echo "NOTE: worktree diff differs from OUT/patch.diff; re-applying patch.diff on a clean tree" >> $log; git checkout -- src; git apply OUT/patch.diff || { echo "patch does not apply" >> $log; exit 2; }; fi
echo "== (1) demo with change" >> $log
cargo test --offline --test seeded_demo -j 4 2>&1 | grep -E "^test result|^test .* (ok|FAILED)" >> $log
echo "== (2) existing suite with change (demo moved aside)" >> $log
mv tests/seeded_demo.rs /tmp/$$.demo.rs
cargo nextest run --workspace --no-fail-fast --tool-config-file pb:/w/lib/nextest.toml --profile pb --test-threads 4 --offline 2>&1 | grep -E "Summary|FAIL" | head -20 >> $log
mv /tmp/$$.demo.rs tests/seeded_demo.rs
echo "== (3) demo without change" >> $log
git apply -R OUT/patch.diff
cargo test --offline --test seeded_demo -j 4 2>&1 | grep -E "^test result|^test .* (ok|FAILED)" >> $log
git apply OUT/patch.diff
echo "== done" >> $log
