NOTES = ("One technique decides every claimed property: Kani (CBMC+SAT) executing /repo's own functions symbolically on a staged copy "
         "regenerated from the working tree on each run. Verdicts are bounded (unwind / sizes per harness, listed in the evidence). "
         "Exit 0 = every harness of the tier discharged (or failing only on findings listed in known_findings.json); exit 1 = a "
         "counterexample reproduced natively against the real build; exit 2 = not decided (timeout, OOM, staging failure, "
         "non-reproducing counterexample) - never reported as a pass or as a violation.")

BUILDING = "check under construction in this session (see DESIGN.md section 3); not yet registered"

CLAIMED = {
    "C07": dict(
        text="For all values within the stated bounds (stamps < 2^62, replica ids 0..2, 0-2 byte payloads, per-kind shapes listed per harness) "
             "ReplicatedValue::merge is commutative, associative and idempotent in everything observable. Bounded exhaustive by SAT; not a proof for unbounded sizes.",
        note="Trusted: Kani/CBMC/CaDiCaL, container model S1, stubs listed in the evidence. Assumes the reachability invariant "
             "(inner stamp <= outer stamp; equal stamps => identical register contents, which C08 establishes).",
    ),
}

NA = {
    "C01": BUILDING, "C03": BUILDING, "C04": BUILDING, "C06": BUILDING, "C08": BUILDING, "C09": BUILDING, "C10": BUILDING,
    "C11": BUILDING, "C14": BUILDING, "C15": BUILDING, "C16": BUILDING, "C17": BUILDING, "C18": BUILDING, "C19": BUILDING,
    "C02": "quantifies over interleavings of tokio tasks/mailboxes; Kani has no scheduler or concurrency semantics and no bounded encoding of the schedule space is within reach of solver-based checking here (DESIGN.md C02)",
    "C05": "production MULTI/EXEC lives inside an async connection handler; the simulation twin replays through CommandExecutor::execute, whose dispatch gave no verdict in 4 x 20-25 min (DESIGN.md C05)",
    "C12": "flush/compact/recover are async fns over an object store with bincode/serde_json between store calls; the cheapest instance gave no verdict in 25/20/15 min in three configurations (DESIGN.md C12)",
    "C13": "same code path and obstacle as C12; the survivor and tombstone rules are inline in the async compact() (DESIGN.md C13)",
    "C20": "a relation between two whole simulator runs (ChaCha RNG, hash-seeded containers, wall clock); no bounded symbolic encoding within reach (DESIGN.md C20)",
}
