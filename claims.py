NOTES = ("One technique decides every claimed property: Kani (CBMC+SAT) executing /repo's own functions symbolically on a staged copy "
         "regenerated from the working tree on each run. Verdicts are bounded (unwind / sizes per harness, listed in the evidence). "
         "Exit 0 = every harness of the tier discharged (or failing only on findings listed in known_findings.json whose stored witness "
         "still reproduces natively); exit 1 = a counterexample reproduced natively against the real build; exit 2 = not decided "
         "(timeout, OOM, staging failure, non-reproducing counterexample) - never reported as a pass or as a violation.")

TRUST = ("Trusted: Kani 0.68 MIR->goto translation, CBMC 6.11 + CaDiCaL, the staging substitutions S1-S11 (hash containers -> "
         "/verif/models/verif_collections with 4, 2 or 1 inline slots, memchr -> linear scan, verbatim text extraction of synchronous pieces of async fns and of single match arms) and the "
         "stubs listed in the evidence (logging, fmt::format, cpuid, parking_lot slow paths). ")

CLAIMED = {
    "C01": dict(
        text="Bounded: argument arithmetic of ONE command for every value of its numeric arguments and of the clock - list index kernels "
             "(LRANGE/LINDEX/LSET/LTRIM on 0-3 elements, any isize), GETRANGE on 0-3 bytes, SET PX/EX + GET/TTL/PTTL, EXPIRE/PEXPIRE "
             "NX|XX|GT|LT, active eviction, 'empty collection stops existing', INCRBY/DECRBY through the dispatch - against a reference written "
             "over i128 from the Redis documentation. Not claimed: sequences of commands, floats, Lua, SCAN, equality with a live Redis.",
        note=TRUST + "Per-command functions are called through forwarding hooks on an executor with an empty CONFIG table; only the harnesses "
             "named c01_dispatch_* go through CommandExecutor::execute.",
    ),
    "C03": dict(
        text="Bounded: (1) the two routing functions send every key of 0-3 ASCII bytes to the same shard for shard counts {1,2,3,16,64} "
             "(decided on the byte streams fed to the hasher); (2) single-key commands are routed by their only key; (3) two-key commands "
             "that execute whole on one shard are reported per command (known findings). Not claimed: the async fan-out arms, KEYS/SCAN/DBSIZE.",
        note=TRUST + "DefaultHasher is replaced by a transparent byte-stream recorder under Kani; counterexamples are replayed with the real SipHash.",
    ),
    "C04": dict(
        text="Bounded: the synchronous decision procedures of the connection handler - batch collectors and fast-path parsers (text-extracted) "
             "return only well-formed frames, consume exactly those frames, leave incomplete input untouched, and whatever a collector consumed "
             "is admitted by run()'s own conditions for every threshold 1..4; a two-frame stream read in two chunks at 13 cut points decodes to "
             "the same frames. Not claimed: run()/try_execute_command as async code, write ordering, MULTI state.",
        note=TRUST + "On the current tree the fast path never matches (HEADER_LEN off by one, DESIGN.md 9.2), so the collector harnesses hold "
             "vacuously today and become meaningful when that constant is corrected. Natively the same questions go to the real handler over a duplex stream.",
    ),
    "C06": dict(
        text='Bounded, replication-state level: two replicas, one update each on one key, symbolic clocks and bytes, deltas cross-delivered: both end with the same type, value, field and stamp, and for two writes the survivor carries the greatest stamp. Quick: SET/DEL from an absent key. Thorough adds SET/SET (absent and common LWW pre-state), SET/HDEL, HSET/HSET and HSET/HDEL on a common hash {f}, HDEL/HDEL, and two observers applying the two deltas in both orders (SET/SET, SET then causal DEL). Not claimed: the other pairs and pre-states (no verdict under their caps), >= 3 concurrent updates, hash-field tombstones reaching a third replica, the executor glue (what a node serves vs its replication state - the S11 harnesses ran out their caps), gossip batching.',
        note=TRUST + 'Replication-state level only (ShardReplicaState / ReplicatedValue).',
    ),
    "C07": dict(
        text='Bounded: ReplicatedValue::merge is commutative, associative and idempotent in everything observable for LWW values (stamps < 2^62, replicas 0..2, 0-2 byte payloads, tombstones, expiry, rf); thorough adds commutativity of the LWW/hash type-mismatch path. Not claimed: hash values (field-wise merge), counters, sets, vector clocks and associativity across types - every such harness, also at the CrdtValue level and with the 1- and 2-slot container models, ran out of time or memory (DESIGN.md 9.6).',
        note=TRUST + 'Assumes the reachability invariant: inner stamp <= outer stamp; equal stamps carry identical registers (established by C08).',
    ),
    "C08": dict(
        text="Inductive step, not histories: (1) register level: from any clock, observing any stamp and then writing/deleting yields a stamp strictly greater than everything seen, which wins on a peer holding the observed value; (2) apply_remote_delta of any LWW delta (any author incl. the node itself) leaves the clock above the delta's and its own previous time; (3) the checkpoint leg of recovery: an entry of any stamp entering through the ApplyRecoveredState arm of the shard actor (text-extracted, S10) is followed by a local write stamped above it that wins on a peer; (4) FLUSHALL (thorough: FLUSHDB, DEL, HDEL, GET, PING) through record_mutation_post_execute (S11) never moves the clock backwards. Not claimed: SET/HSET/INCR through that function (no verdict), clock wrap-around beyond 2^62.",
        note=TRUST + "The executor's reaction to the command re-issued by the recovered-entry arm is stubbed to a no-op in (3); natively the real actor is driven through its mailbox.",
    ),
    "C09": dict(
        text="Bounded: WalRotator/WalWriter with a model store whose every append (incl. partial), fsync and create may fail: 2 (thorough 3) "
             "appends with the rotation threshold symbolic, then sync(): every append that returned Ok before a successful sync lies inside the "
             "fsynced prefix of its file - the obligation the group-commit actor relies on. Not claimed: the async actor loop and its timeouts.",
        note=TRUST + "Crash model = keep the fsynced prefix of every file.",
    ),
    "C10": dict(
        text='Bounded: WalEntry::decode is total on arbitrary bytes of declared payload length 0,2,4; encode/decode round-trips for payloads 0-4; proper prefixes of an encoded entry are rejected; a single-bit flip in length, CRC or payload of a 1-byte-payload entry is rejected or harmless (stamp: known finding F6); WalReader::entries / entries_after keep both entries of an image of two header-only entries, in order. Not claimed: truncate_before and isolation of damaged files (harnesses ran out of time or memory), multi-byte corruptions colliding the CRC, payloads > 4 bytes.',
        note=TRUST + 'Real crc32fast (portable path).',
    ),
    "C11": dict(
        text='Bounded: (1) WAL leg: an update that exists only in the WAL is replayed whatever the maximum stamps of the listed segments are (threshold statements text-extracted from recover_with_wal, S5); (2) segment selection of RecoveryManager::recover without a checkpoint (statements text-extracted, S9): each of 2 (thorough: 3) listed segments, in either list order and with minimum stamps that may be equal, is loaded exactly once and nothing unlisted is. Not claimed: selection with a checkpoint (no verdict), how recovered entries are applied to the shards, decoding of segments/checkpoints, idempotence of repeated recovery.',
        note=TRUST + 'Natively the same questions are put to the real recover()/recover_with_wal over in-memory stores.',
    ),
    "C13": dict(
        text="Bounded, per-key rules of one compaction only: the statements of Compactor::compact() that choose the surviving update of a key and that drop expired tombstones (text-extracted, S8) are run on 2 LWW updates of one key with symbolic stamps (equal times from two replicas included), bytes, tombstone flags and any tombstone cutoff: when no tombstone is dropped, recovery after the compaction returns the same value, liveness and stamp as before; when one is dropped, no older value of the compacted segments becomes visible. Not claimed: an older value OUTSIDE the compaction (unselected segment, checkpoint) resurfacing after a tombstone is dropped (harnesses ran out of memory; by reading this is a defect, DESIGN.md 9.2 F11b), hash values, segment selection, manifest updates, interleaving with flushes, the object-store steps.",
        note=TRUST + "1-slot container model in the quick tier (harness names *_c1), 2-slot model in the thorough tier (*_c2). Natively the real compact() runs between two real recover() runs on an in-memory object store.",
    ),
    "C15": dict(
        text="Bounded: both RESP decoders on templates whose size-determining fields are concrete (type byte, length text from a boundary menu "
             "incl. -2, -1, 2^31, i64::MAX, u64::MAX, 10^20, empty, non-numeric; buffer length) and all other bytes symbolic: no panic, consumed "
             "<= buffer, exact frame size, terminator checked, short input = need-more, invalid length = error, pre-allocation bounded, "
             "parse() consistent with the slice decoder, prefix stability. Not claimed: lengths outside the menu, nesting > 1, encoders.",
        note=TRUST + "RespCodec is driven through try_parse (hook) for most instances and through parse(BytesMut) in the buffered/prefix harnesses.",
    ),
    "C16": dict(
        text="Bounded: for every command name of the parser tables and every arity 0..4 with arguments of 2 symbolic bytes each (plus keyword "
             "instances), Command::from_resp and Command::from_resp_zero_copy agree on accept/reject, on the Command (derived PartialEq) and on "
             "literal error texts. Quick tier runs a sample; thorough runs all. Not claimed: formatted error texts (fmt::format is stubbed), "
             "arities > 4, longer arguments, redis.call.",
        note=TRUST,
    ),
    "C17": dict(
        text='Bounded, per operation: on worlds of two keys of different types (the list key carries a TTL), wrong-typed operands (SETRANGE/STRLEN on a set, LPUSH/LSET/HINCRBY on a string) and failing arguments (SET with an invalid PX, SET EX overflowing i64 on a list key with a TTL) reply with an error and leave every key, type, content summary and deadline unchanged; TTL/PTTL/EXISTS change nothing. Not claimed: the other operations listed in the registry as experimental (no verdict, among them RPOPLPUSH/LMOVE), the dispatch match, multi-element partial failure, EVAL.',
        note=TRUST + 'Keyspace is built by direct insertion; operations are called through forwarding hooks.',
    ),
    "C18": dict(
        text='Bounded: bucket hash independent of fold order (2 digests) and sound (different pair sets => different hash), key digest sound and complete for LWW values, expiry and hash {f} (decided on hasher input streams), state digest of two keys independent of map insertion order, and get_keys_in_buckets offers a key of a requested bucket even when a key of another bucket precedes it and the per-round limit is 1. Not claimed: completion of a sync within a number of rounds when a bucket holds more keys than the limit (harness ran out of time; by reading the same prefix is re-sent each round), CRDT kinds other than LWW/hash.',
        note=TRUST + 'Transparent hasher with stream log; natively real SipHash.',
    ),
    "C19": dict(
        text='Bounded: hash ring over three concrete virtual-node layouts (3 members x 2 virtual nodes, incl. adjacent vnodes and positions 0 / u64::MAX), key position = any u64, replication factor 1: the primary is the member clockwise from the key, independent of join order, and gossip targets = replicas minus sender; GossipRouter::from_config ids = the other members of a 3-node cluster. Not claimed: replication factor >= 2 (every such harness ran out of memory in CBMC, DESIGN.md 9.6), removal/addition of members, other layouts.',
        note=TRUST + "HashRing's two private hash functions are stubbed by position tables under Kani; natively the oracle is swept over 4000 real keys.",
    ),
}

NA = {
    "C02": "quantifies over interleavings of tokio tasks/mailboxes; Kani has no scheduler or concurrency semantics and no bounded encoding of the schedule space is within reach of solver-based checking here (DESIGN.md C02)",
    "C05": "production MULTI/EXEC lives inside an async connection handler; the simulation twin replays through CommandExecutor::execute on heap-stored Commands, which gave no verdict in 4 x 20-25 min (DESIGN.md C05)",
    "C12": "flush/compact/recover are async fns over an object store with bincode/serde_json between store calls; the cheapest instance gave no verdict in 25/20/15 min in three configurations (DESIGN.md C12)",
    "C14": "the part of C14 this technique reaches (WAL entry codec: round trip, truncation, single-bit damage) is decided under C10; segment/checkpoint framing with real images and value round trips through bincode/serde_json were not brought to a verdict (DESIGN.md C14, 9.3), so C14 itself is not claimed",
    "C20": "a relation between two whole simulator runs (ChaCha RNG, hash-seeded containers, wall clock); no bounded symbolic encoding within reach (DESIGN.md C20)",
}
