NOTES = ("One technique decides every claimed property: Kani (CBMC+SAT) executing /repo's own functions symbolically on a staged copy "
         "regenerated from the working tree on each run. Verdicts are bounded (unwind / sizes per harness, listed in the evidence). "
         "Exit 0 = every harness of the tier discharged (or failing only on findings listed in known_findings.json whose stored witness "
         "still reproduces natively); exit 1 = a counterexample reproduced natively against the real build; exit 2 = not decided "
         "(timeout, OOM, staging failure, non-reproducing counterexample) - never reported as a pass or as a violation.")

TRUST = ("Trusted: Kani 0.68 MIR->goto translation, CBMC 6.11 + CaDiCaL, the staging substitutions S1-S5 (hash containers -> "
         "/verif/models/verif_collections, memchr -> linear scan, verbatim text extraction of synchronous pieces of async fns) and the "
         "stubs listed in the evidence (logging, fmt::format, cpuid, parking_lot slow paths). ")

CLAIMED = {
    "C01": dict(
        text="Bounded: argument arithmetic of ONE command for every value of its numeric arguments and of the clock - list index kernels "
             "(LRANGE/LINDEX/LSET/LTRIM on 0-3 elements, any isize), GETRANGE on 0-3 bytes, SET PX/EX + GET/TTL/PTTL, EXPIRE/PEXPIRE "
             "NX|XX|GT|LT, active eviction, 'empty collection stops existing', INCRBY/DECRBY through the dispatch - against a reference written "
             "over i128 from the Redis documentation. Not claimed: sequences of commands, floats, Lua, SCAN, equality with a live Redis.",
        note=TRUST + "Per-command functions are called through forwarding hooks on an executor with an empty CONFIG table; only the harnesses "
             "named c01_dispatch_* go through CommandExecutor::execute.",
    ),
    "C03": dict(
        text="Bounded: (1) the two routing functions send every key of 0-3 ASCII bytes to the same shard for shard counts {1,2,3,16,64} "
             "(decided on the byte streams fed to the hasher); (2) single-key commands are routed by their only key; (3) two-key commands "
             "that execute whole on one shard are reported per command (known findings). Not claimed: the async fan-out arms, KEYS/SCAN/DBSIZE.",
        note=TRUST + "DefaultHasher is replaced by a transparent byte-stream recorder under Kani; counterexamples are replayed with the real SipHash.",
    ),
    "C04": dict(
        text="Bounded: the synchronous decision procedures of the connection handler - batch collectors and fast-path parsers (text-extracted) "
             "return only well-formed frames, consume exactly those frames, leave incomplete input untouched, and whatever a collector consumed "
             "is admitted by run()'s own conditions for every threshold 1..4; a two-frame stream read in two chunks at 13 cut points decodes to "
             "the same frames. Not claimed: run()/try_execute_command as async code, write ordering, MULTI state.",
        note=TRUST + "On the current tree the fast path never matches (HEADER_LEN off by one, DESIGN.md 9.2), so the collector harnesses hold "
             "vacuously today and become meaningful when that constant is corrected. Natively the same questions go to the real handler over a duplex stream.",
    ),
    "C06": dict(
        text="Bounded: two replicas, one update each (SET/DEL/HSET/HDEL, all ordered pairs, three pre-states), symbolic clocks and bytes, deltas "
             "cross-delivered: both end with the same type, value, field and stamp, and for two writes the survivor carries the greatest stamp; "
             "observers applying the two deltas in both orders end alike. Not claimed: >= 3 concurrent updates, the executor glue "
             "(what a node serves vs its replication state), gossip batching.",
        note=TRUST + "Replication-state level only (ShardReplicaState / ReplicatedValue).",
    ),
    "C07": dict(
        text="Bounded: ReplicatedValue::merge is commutative, associative and idempotent in everything observable for LWW values (stamps < 2^62, "
             "replicas 0..2, 0-2 byte payloads, tombstones, expiry, rf); thorough tier adds hash values over fields {f,g}, G/PN counters "
             "(2 replicas, u32 counts), G-sets, OR-sets, vector clocks and the LWW/hash type-mismatch path, each of concrete kind per harness.",
        note=TRUST + "Assumes the reachability invariant: inner stamp <= outer stamp; equal stamps carry identical registers (established by C08).",
    ),
    "C08": dict(
        text="Inductive step, not histories: from an arbitrary state in which every stored stamp is <= the clock, observing any stamp and then "
             "writing/deleting yields a stamp strictly greater than everything seen, which wins on a peer holding the observed value "
             "(register level and ShardReplicaState level, any source replica including the node itself). Not claimed: the checkpoint leg of "
             "recovery (inside an async actor loop), clock wrap-around beyond 2^62.",
        note=TRUST,
    ),
    "C09": dict(
        text="Bounded: WalRotator/WalWriter with a model store whose every append (incl. partial), fsync and create may fail: 2 (thorough 3) "
             "appends with the rotation threshold symbolic, then sync(): every append that returned Ok before a successful sync lies inside the "
             "fsynced prefix of its file - the obligation the group-commit actor relies on. Not claimed: the async actor loop and its timeouts.",
        note=TRUST + "Crash model = keep the fsynced prefix of every file.",
    ),
    "C10": dict(
        text="Bounded: WalEntry::decode is total on arbitrary bytes of declared payload length 0,1,3; encode/decode round-trips for payloads "
             "0,2,4; every proper prefix is rejected; a single-bit flip in length, CRC or payload is rejected or harmless (stamp: known finding); "
             "WalReader::entries keeps append order incl. header-only entries; truncate_before never deletes a file holding an entry newer than T; "
             "a damaged file does not hide another file's entries. Not claimed: multi-byte corruptions colliding the CRC, payloads > 4 bytes.",
        note=TRUST + "Real crc32fast (portable path).",
    ),
    "C11": dict(
        text="Bounded, WAL leg only: an update that exists only in the WAL is replayed whatever the maximum stamps of the listed segments are "
             "(threshold statements text-extracted from recover_with_wal), and WalReader::entries_after keeps exactly the entries at or above "
             "the threshold. Not claimed: RecoveryManager::recover itself (segment selection/ordering, checkpoint handling - async over an "
             "object store with JSON/bincode), idempotence of repeated recovery.",
        note=TRUST + "Natively the same question is put to the real recover_with_wal over in-memory stores.",
    ),
    "C15": dict(
        text="Bounded: both RESP decoders on templates whose size-determining fields are concrete (type byte, length text from a boundary menu "
             "incl. -2, -1, 2^31, i64::MAX, u64::MAX, 10^20, empty, non-numeric; buffer length) and all other bytes symbolic: no panic, consumed "
             "<= buffer, exact frame size, terminator checked, short input = need-more, invalid length = error, pre-allocation bounded, "
             "parse() consistent with the slice decoder, prefix stability. Not claimed: lengths outside the menu, nesting > 1, encoders.",
        note=TRUST + "RespCodec is driven through try_parse (hook) for most instances and through parse(BytesMut) in the buffered/prefix harnesses.",
    ),
    "C16": dict(
        text="Bounded: for every command name of the parser tables and every arity 0..4 with arguments of 2 symbolic bytes each (plus keyword "
             "instances), Command::from_resp and Command::from_resp_zero_copy agree on accept/reject, on the Command (derived PartialEq) and on "
             "literal error texts. Quick tier runs a sample; thorough runs all. Not claimed: formatted error texts (fmt::format is stubbed), "
             "arities > 4, longer arguments, redis.call.",
        note=TRUST,
    ),
    "C17": dict(
        text="Bounded, per operation: on a 4-key world of every type (one key with a TTL), wrong-typed operands and failing arguments "
             "(overflow, out-of-range index, invalid expiry) reply with an error and leave every key, type, content summary and deadline "
             "unchanged; read-only operations change nothing. Not claimed: the dispatch match, multi-element partial failure, EVAL.",
        note=TRUST + "Keyspace is built by direct insertion; operations are called through forwarding hooks.",
    ),
    "C18": dict(
        text="Bounded: bucket hash independent of fold order (2-3 digests) and sound (different pair sets => different hash), key digest sound "
             "and complete for LWW values, expiry and hash {f} (decided on hasher input streams), state digest independent of map insertion "
             "order. Not claimed: sync rounds under max_keys_per_sync, CRDT kinds other than LWW/hash.",
        note=TRUST + "Transparent hasher with stream log; natively real SipHash.",
    ),
    "C19": dict(
        text="Bounded: hash ring over three concrete virtual-node layouts (incl. adjacent vnodes and positions 0 / u64::MAX), 2-4 members x 2 "
             "vnodes, key position = any u64, rf 1..4: replica list independent of join order, min(rf,n) distinct members, removal changes "
             "only keys that held the node, gossip targets = replicas minus sender; from_config ids = the other members. Not all layouts.",
        note=TRUST + "HashRing's two private hash functions are stubbed by position tables under Kani; natively the oracle is swept over 4000 real keys.",
    ),
}

NA = {
    "C02": "quantifies over interleavings of tokio tasks/mailboxes; Kani has no scheduler or concurrency semantics and no bounded encoding of the schedule space is within reach of solver-based checking here (DESIGN.md C02)",
    "C05": "production MULTI/EXEC lives inside an async connection handler; the simulation twin replays through CommandExecutor::execute on heap-stored Commands, which gave no verdict in 4 x 20-25 min (DESIGN.md C05)",
    "C12": "flush/compact/recover are async fns over an object store with bincode/serde_json between store calls; the cheapest instance gave no verdict in 25/20/15 min in three configurations (DESIGN.md C12)",
    "C13": "same code path and obstacle as C12; the survivor and tombstone rules are inline in the async compact() (DESIGN.md C13)",
    "C14": "the part of C14 this technique reaches (WAL entry codec: round trip, truncation, single-bit damage) is decided under C10; segment/checkpoint framing with real images and value round trips through bincode/serde_json were not brought to a verdict (DESIGN.md C14, 9.3), so C14 itself is not claimed",
    "C20": "a relation between two whole simulator runs (ChaCha RNG, hash-seeded containers, wall clock); no bounded symbolic encoding within reach (DESIGN.md C20)",
}
