//! Linear-scan models of std::collections::{HashMap, HashSet} for bounded verification.
//! Iteration order = insertion order (one of the orders std permits).
use std::borrow::Borrow;
use std::fmt;
use std::marker::PhantomData;

pub mod hash_map {
    pub use super::{HashMap, Entry, OccupiedEntry, VacantEntry};
    pub use std::collections::hash_map::DefaultHasher;
    pub use std::collections::hash_map::RandomState;
}
pub mod hash_set { pub use super::HashSet; }

/// S4 model of `memchr::memchr`: first index of `needle` in `haystack` (linear scan).
pub fn naive_memchr(needle: u8, haystack: &[u8]) -> Option<usize> {
    let mut i = 0;
    while i < haystack.len() {
        if haystack[i] == needle { return Some(i); }
        i += 1;
    }
    None
}

#[cfg(not(any(feature = "cap2", feature = "cap1")))]
pub const CAP: usize = 4;
#[cfg(all(feature = "cap2", not(feature = "cap1")))]
pub const CAP: usize = 2;
#[cfg(feature = "cap1")]
pub const CAP: usize = 1;
/// Fixed inline slots (no realloc, no memmove: keeps CBMC's constant propagation alive) + overflow Vec for the few large maps.
pub struct HashMap<K, V, S = ()> { slots: [Option<(K, V)>; CAP], extra: Vec<(K, V)>, n: usize, _s: PhantomData<S> }
impl<K: Clone, V: Clone, S> Clone for HashMap<K, V, S> { fn clone(&self) -> Self { HashMap { slots: std::array::from_fn(|i| self.slots[i].clone()), extra: self.extra.clone(), n: self.n, _s: PhantomData } } }
impl<K, V, S> Default for HashMap<K, V, S> { fn default() -> Self { HashMap { slots: std::array::from_fn(|_| None), extra: Vec::new(), n: 0, _s: PhantomData } } }
impl<K: fmt::Debug, V: fmt::Debug, S> fmt::Debug for HashMap<K, V, S> {
    fn fmt(&self, f: &mut fmt::Formatter<'_>) -> fmt::Result { f.debug_map().entries(self.iter()).finish() }
}
impl<K, V> HashMap<K, V, ()> {
    pub fn new() -> Self { Self::default() }
    pub fn with_capacity(_n: usize) -> Self { Self::default() }
}
impl<K, V, S> HashMap<K, V, S> {
    pub fn len(&self) -> usize { self.n }
    pub fn is_empty(&self) -> bool { self.n == 0 }
    pub fn clear(&mut self) { let mut i = 0; while i < CAP { self.slots[i] = None; i += 1; } self.extra.clear(); self.n = 0; }
    pub fn capacity(&self) -> usize { CAP }
    pub fn reserve(&mut self, _n: usize) {}
    pub fn shrink_to_fit(&mut self) {}
    pub fn iter(&self) -> Iter<'_, K, V> { Iter { inner: self.slots.iter(), extra: self.extra.iter() } }
    pub fn iter_mut(&mut self) -> IterMut<'_, K, V> { IterMut { inner: self.slots.iter_mut(), extra: self.extra.iter_mut() } }
    pub fn keys(&self) -> impl Iterator<Item = &K> + Clone + '_ { self.iter().map(|(k, _)| k) }
    pub fn values(&self) -> impl Iterator<Item = &V> + Clone + '_ { self.iter().map(|(_, v)| v) }
    pub fn values_mut(&mut self) -> impl Iterator<Item = &mut V> + '_ { self.iter_mut().map(|(_, v)| v) }
    pub fn into_keys(self) -> impl Iterator<Item = K> { self.into_iter().map(|(k, _)| k) }
    pub fn into_values(self) -> impl Iterator<Item = V> { self.into_iter().map(|(_, v)| v) }
    pub fn drain(&mut self) -> std::vec::IntoIter<(K, V)> { let mut v = Vec::new(); let mut i = 0; while i < CAP { if let Some(e) = self.slots[i].take() { v.push(e); } i += 1; } v.append(&mut self.extra); self.n = 0; v.into_iter() }
    pub fn retain<F: FnMut(&K, &mut V) -> bool>(&mut self, mut f: F) {
        let mut i = 0; while i < CAP { let keep = match &mut self.slots[i] { Some((k, v)) => f(k, v), None => true }; if !keep { self.slots[i] = None; self.n -= 1; } i += 1; }
        let before = self.extra.len(); self.extra.retain_mut(|(k, v)| f(k, v)); self.n -= before - self.extra.len();
    }
    fn free_slot(&self) -> Option<usize> { let mut i = 0; while i < CAP { if self.slots[i].is_none() { return Some(i); } i += 1; } None }
    fn at(&self, i: usize) -> &(K, V) { if i < CAP { self.slots[i].as_ref().unwrap() } else { &self.extra[i - CAP] } }
    fn at_mut(&mut self, i: usize) -> &mut (K, V) { if i < CAP { self.slots[i].as_mut().unwrap() } else { &mut self.extra[i - CAP] } }
    fn take_at(&mut self, i: usize) -> (K, V) { self.n -= 1; if i < CAP { self.slots[i].take().unwrap() } else { self.extra.remove(i - CAP) } }
    fn put(&mut self, k: K, v: V) -> usize { self.n += 1; match self.free_slot() { Some(j) => { self.slots[j] = Some((k, v)); j } None => { self.extra.push((k, v)); CAP + self.extra.len() - 1 } } }
}
impl<K: Eq, V, S> HashMap<K, V, S> {
    fn pos<Q: ?Sized + Eq>(&self, k: &Q) -> Option<usize> where K: Borrow<Q> {
        let mut i = 0;
        while i < CAP { if let Some((kk, _)) = &self.slots[i] { if kk.borrow() == k { return Some(i); } } i += 1; }
        let mut j = 0;
        while j < self.extra.len() { if self.extra[j].0.borrow() == k { return Some(CAP + j); } j += 1; }
        None
    }
    pub fn get<Q: ?Sized + Eq>(&self, k: &Q) -> Option<&V> where K: Borrow<Q> { self.pos(k).map(|i| &self.at(i).1) }
    pub fn get_mut<Q: ?Sized + Eq>(&mut self, k: &Q) -> Option<&mut V> where K: Borrow<Q> { match self.pos(k) { Some(i) => Some(&mut self.at_mut(i).1), None => None } }
    pub fn get_key_value<Q: ?Sized + Eq>(&self, k: &Q) -> Option<(&K, &V)> where K: Borrow<Q> { self.pos(k).map(|i| { let e = self.at(i); (&e.0, &e.1) }) }
    pub fn contains_key<Q: ?Sized + Eq>(&self, k: &Q) -> bool where K: Borrow<Q> { self.pos(k).is_some() }
    pub fn insert(&mut self, k: K, v: V) -> Option<V> {
        match self.pos(&k) { Some(i) => Some(std::mem::replace(&mut self.at_mut(i).1, v)), None => { self.put(k, v); None } }
    }
    pub fn remove<Q: ?Sized + Eq>(&mut self, k: &Q) -> Option<V> where K: Borrow<Q> { self.remove_entry(k).map(|e| e.1) }
    pub fn remove_entry<Q: ?Sized + Eq>(&mut self, k: &Q) -> Option<(K, V)> where K: Borrow<Q> { match self.pos(k) { Some(i) => Some(self.take_at(i)), None => None } }
    pub fn entry(&mut self, k: K) -> Entry<'_, K, V, S> {
        match self.pos(&k) { Some(i) => Entry::Occupied(OccupiedEntry { map: self, idx: i }), None => Entry::Vacant(VacantEntry { map: self, key: k }) }
    }
}
pub enum Entry<'a, K, V, S = ()> { Occupied(OccupiedEntry<'a, K, V, S>), Vacant(VacantEntry<'a, K, V, S>) }
pub struct OccupiedEntry<'a, K, V, S = ()> { map: &'a mut HashMap<K, V, S>, idx: usize }
pub struct VacantEntry<'a, K, V, S = ()> { map: &'a mut HashMap<K, V, S>, key: K }
impl<'a, K, V, S> OccupiedEntry<'a, K, V, S> {
    pub fn get(&self) -> &V { &self.map.at(self.idx).1 }
    pub fn get_mut(&mut self) -> &mut V { &mut self.map.at_mut(self.idx).1 }
    pub fn into_mut(self) -> &'a mut V { &mut self.map.at_mut(self.idx).1 }
    pub fn insert(&mut self, v: V) -> V { std::mem::replace(self.get_mut(), v) }
    pub fn remove(self) -> V { self.map.take_at(self.idx).1 }
    pub fn key(&self) -> &K { &self.map.at(self.idx).0 }
}
impl<'a, K, V, S> VacantEntry<'a, K, V, S> {
    pub fn insert(self, v: V) -> &'a mut V { let i = self.map.put(self.key, v); &mut self.map.at_mut(i).1 }
    pub fn key(&self) -> &K { &self.key }
}
impl<'a, K, V, S> Entry<'a, K, V, S> {
    pub fn or_insert(self, v: V) -> &'a mut V { match self { Entry::Occupied(o) => o.into_mut(), Entry::Vacant(e) => e.insert(v) } }
    pub fn or_insert_with<F: FnOnce() -> V>(self, f: F) -> &'a mut V { match self { Entry::Occupied(o) => o.into_mut(), Entry::Vacant(e) => e.insert(f()) } }
    pub fn or_default(self) -> &'a mut V where V: Default { self.or_insert_with(V::default) }
    pub fn and_modify<F: FnOnce(&mut V)>(mut self, f: F) -> Self { if let Entry::Occupied(ref mut o) = self { f(o.get_mut()); } self }
    pub fn key(&self) -> &K { match self { Entry::Occupied(o) => o.key(), Entry::Vacant(v) => v.key() } }
}
pub struct Iter<'a, K, V> { inner: std::slice::Iter<'a, Option<(K, V)>>, extra: std::slice::Iter<'a, (K, V)> }
impl<'a, K, V> Clone for Iter<'a, K, V> { fn clone(&self) -> Self { Iter { inner: self.inner.clone(), extra: self.extra.clone() } } }
impl<'a, K, V> Iterator for Iter<'a, K, V> { type Item = (&'a K, &'a V); fn next(&mut self) -> Option<Self::Item> { loop { match self.inner.next() { Some(Some((k, v))) => return Some((k, v)), Some(None) => continue, None => return self.extra.next().map(|(k, v)| (k, v)) } } } }
pub struct IterMut<'a, K, V> { inner: std::slice::IterMut<'a, Option<(K, V)>>, extra: std::slice::IterMut<'a, (K, V)> }
impl<'a, K, V> Iterator for IterMut<'a, K, V> { type Item = (&'a K, &'a mut V); fn next(&mut self) -> Option<Self::Item> { loop { match self.inner.next() { Some(Some((k, v))) => return Some((&*k, v)), Some(None) => continue, None => return self.extra.next().map(|(k, v)| (&*k, v)) } } } }
pub struct IntoIter<K, V> { inner: std::array::IntoIter<Option<(K, V)>, CAP>, extra: std::vec::IntoIter<(K, V)> }
impl<K, V> Iterator for IntoIter<K, V> { type Item = (K, V); fn next(&mut self) -> Option<(K, V)> { loop { match self.inner.next() { Some(Some(e)) => return Some(e), Some(None) => continue, None => return self.extra.next() } } } }
impl<'a, K, V, S> IntoIterator for &'a HashMap<K, V, S> { type Item = (&'a K, &'a V); type IntoIter = Iter<'a, K, V>; fn into_iter(self) -> Iter<'a, K, V> { self.iter() } }
impl<'a, K, V, S> IntoIterator for &'a mut HashMap<K, V, S> { type Item = (&'a K, &'a mut V); type IntoIter = IterMut<'a, K, V>; fn into_iter(self) -> IterMut<'a, K, V> { self.iter_mut() } }
impl<K, V, S> IntoIterator for HashMap<K, V, S> { type Item = (K, V); type IntoIter = IntoIter<K, V>; fn into_iter(self) -> Self::IntoIter { IntoIter { inner: self.slots.into_iter(), extra: self.extra.into_iter() } } }
impl<K: Eq, V, S> FromIterator<(K, V)> for HashMap<K, V, S> { fn from_iter<I: IntoIterator<Item = (K, V)>>(it: I) -> Self { let mut m = Self::default(); for (k, v) in it { m.insert(k, v); } m } }
impl<K: Eq, V, S> Extend<(K, V)> for HashMap<K, V, S> { fn extend<I: IntoIterator<Item = (K, V)>>(&mut self, it: I) { for (k, v) in it { self.insert(k, v); } } }
impl<K: Eq, V, const N: usize> From<[(K, V); N]> for HashMap<K, V> { fn from(a: [(K, V); N]) -> Self { a.into_iter().collect() } }
impl<K: Eq, V: PartialEq, S> PartialEq for HashMap<K, V, S> {
    fn eq(&self, o: &Self) -> bool { self.len() == o.len() && self.iter().all(|(k, v)| o.get(k).map_or(false, |w| v == w)) }
}
impl<K: Eq, V: Eq, S> Eq for HashMap<K, V, S> {}
impl<K: Eq, Q: ?Sized + Eq, V, S> std::ops::Index<&Q> for HashMap<K, V, S> where K: Borrow<Q> { type Output = V; fn index(&self, k: &Q) -> &V { self.get(k).expect("no entry found for key") } }

impl<K: serde::Serialize, V: serde::Serialize, S> serde::Serialize for HashMap<K, V, S> {
    fn serialize<Z: serde::Serializer>(&self, s: Z) -> Result<Z::Ok, Z::Error> { s.collect_map(self.iter()) }
}
impl<'de, K: serde::Deserialize<'de> + Eq, V: serde::Deserialize<'de>, S> serde::Deserialize<'de> for HashMap<K, V, S> {
    fn deserialize<D: serde::Deserializer<'de>>(d: D) -> Result<Self, D::Error> {
        struct Vis<K, V, S>(PhantomData<(K, V, S)>);
        impl<'de, K: serde::Deserialize<'de> + Eq, V: serde::Deserialize<'de>, S> serde::de::Visitor<'de> for Vis<K, V, S> {
            type Value = HashMap<K, V, S>;
            fn expecting(&self, f: &mut fmt::Formatter) -> fmt::Result { f.write_str("a map") }
            fn visit_map<A: serde::de::MapAccess<'de>>(self, mut a: A) -> Result<Self::Value, A::Error> { let mut m = HashMap::default(); while let Some((k, v)) = a.next_entry()? { m.insert(k, v); } Ok(m) }
        }
        d.deserialize_map(Vis(PhantomData))
    }
}

// ------------------------------- HashSet ---------------------------------
pub struct HashSet<T, S = ()> { slots: [Option<T>; CAP], n: usize, _s: PhantomData<S> }
impl<T: Clone, S> Clone for HashSet<T, S> { fn clone(&self) -> Self { HashSet { slots: std::array::from_fn(|i| self.slots[i].clone()), n: self.n, _s: PhantomData } } }
impl<T, S> Default for HashSet<T, S> { fn default() -> Self { HashSet { slots: std::array::from_fn(|_| None), n: 0, _s: PhantomData } } }
impl<T: fmt::Debug, S> fmt::Debug for HashSet<T, S> { fn fmt(&self, f: &mut fmt::Formatter<'_>) -> fmt::Result { f.debug_set().entries(self.iter()).finish() } }
impl<T> HashSet<T, ()> {
    pub fn new() -> Self { Self::default() }
    pub fn with_capacity(_n: usize) -> Self { Self::default() }
}
pub struct SetIter<'a, T> { inner: std::slice::Iter<'a, Option<T>> }
impl<'a, T> Clone for SetIter<'a, T> { fn clone(&self) -> Self { SetIter { inner: self.inner.clone() } } }
impl<'a, T> Iterator for SetIter<'a, T> { type Item = &'a T; fn next(&mut self) -> Option<&'a T> { loop { match self.inner.next() { Some(Some(t)) => return Some(t), Some(None) => continue, None => return None } } } }
pub struct SetIntoIter<T> { inner: std::array::IntoIter<Option<T>, CAP> }
impl<T> Iterator for SetIntoIter<T> { type Item = T; fn next(&mut self) -> Option<T> { loop { match self.inner.next() { Some(Some(t)) => return Some(t), Some(None) => continue, None => return None } } } }
impl<T, S> HashSet<T, S> {
    pub fn len(&self) -> usize { self.n }
    pub fn is_empty(&self) -> bool { self.n == 0 }
    pub fn clear(&mut self) { let mut i = 0; while i < CAP { self.slots[i] = None; i += 1; } self.n = 0; }
    pub fn iter(&self) -> SetIter<'_, T> { SetIter { inner: self.slots.iter() } }
    pub fn drain(&mut self) -> std::vec::IntoIter<T> { let mut v = Vec::new(); let mut i = 0; while i < CAP { if let Some(e) = self.slots[i].take() { v.push(e); } i += 1; } self.n = 0; v.into_iter() }
    pub fn retain<F: FnMut(&T) -> bool>(&mut self, mut f: F) { let mut i = 0; while i < CAP { let keep = match &self.slots[i] { Some(t) => f(t), None => true }; if !keep { self.slots[i] = None; self.n -= 1; } i += 1; } }
    fn free_slot(&self) -> usize { let mut i = 0; while i < CAP { if self.slots[i].is_none() { return i; } i += 1; } panic!("verif_collections: model capacity exceeded") }
}
impl<T: Eq, S> HashSet<T, S> {
    fn pos<Q: ?Sized + Eq>(&self, k: &Q) -> Option<usize> where T: Borrow<Q> { let mut i = 0; while i < CAP { if let Some(t) = &self.slots[i] { if t.borrow() == k { return Some(i); } } i += 1; } None }
    pub fn contains<Q: ?Sized + Eq>(&self, k: &Q) -> bool where T: Borrow<Q> { self.pos(k).is_some() }
    pub fn get<Q: ?Sized + Eq>(&self, k: &Q) -> Option<&T> where T: Borrow<Q> { match self.pos(k) { Some(i) => self.slots[i].as_ref(), None => None } }
    pub fn insert(&mut self, t: T) -> bool {
        if self.pos(&t).is_some() { return false; }
        // constant slot indices only (loop variable): a slot index computed by free_slot() is a symbolic value once an
        // earlier insert was conditional, and `slots[symbolic] = ..` on an array of structs is what made CBMC's array
        // post-processing run out of memory in the ring harnesses
        let mut v = Some(t);
        let mut i = 0;
        while i < CAP { if v.is_some() && self.slots[i].is_none() { self.slots[i] = v.take(); } i += 1; }
        if v.is_some() { panic!("verif_collections: model capacity exceeded"); }
        self.n += 1;
        true
    }
    pub fn remove<Q: ?Sized + Eq>(&mut self, k: &Q) -> bool where T: Borrow<Q> { self.take(k).is_some() }
    pub fn take<Q: ?Sized + Eq>(&mut self, k: &Q) -> Option<T> where T: Borrow<Q> {
        let mut out = None;
        let mut i = 0;
        while i < CAP { if out.is_none() { let hit = match &self.slots[i] { Some(t) => t.borrow() == k, None => false }; if hit { out = self.slots[i].take(); self.n -= 1; } } i += 1; }
        out
    }
    pub fn union<'a>(&'a self, o: &'a Self) -> impl Iterator<Item = &'a T> + 'a { self.iter().chain(o.iter().filter(move |t| !self.contains(*t))) }
    pub fn intersection<'a>(&'a self, o: &'a Self) -> impl Iterator<Item = &'a T> + 'a { self.iter().filter(move |t| o.contains(*t)) }
    pub fn difference<'a>(&'a self, o: &'a Self) -> impl Iterator<Item = &'a T> + 'a { self.iter().filter(move |t| !o.contains(*t)) }
    pub fn is_subset(&self, o: &Self) -> bool { self.iter().all(|t| o.contains(t)) }
    pub fn is_superset(&self, o: &Self) -> bool { o.is_subset(self) }
    pub fn is_disjoint(&self, o: &Self) -> bool { self.iter().all(|t| !o.contains(t)) }
}
impl<'a, T, S> IntoIterator for &'a HashSet<T, S> { type Item = &'a T; type IntoIter = SetIter<'a, T>; fn into_iter(self) -> Self::IntoIter { self.iter() } }
impl<T, S> IntoIterator for HashSet<T, S> { type Item = T; type IntoIter = SetIntoIter<T>; fn into_iter(self) -> Self::IntoIter { SetIntoIter { inner: self.slots.into_iter() } } }
impl<T: Eq, S> FromIterator<T> for HashSet<T, S> { fn from_iter<I: IntoIterator<Item = T>>(it: I) -> Self { let mut s = Self::default(); for t in it { s.insert(t); } s } }
impl<T: Eq, S> Extend<T> for HashSet<T, S> { fn extend<I: IntoIterator<Item = T>>(&mut self, it: I) { for t in it { self.insert(t); } } }
impl<T: Eq, const N: usize> From<[T; N]> for HashSet<T> { fn from(a: [T; N]) -> Self { a.into_iter().collect() } }
impl<T: Eq, S> PartialEq for HashSet<T, S> { fn eq(&self, o: &Self) -> bool { self.len() == o.len() && self.is_subset(o) } }
impl<T: Eq, S> Eq for HashSet<T, S> {}
impl<T: serde::Serialize, S> serde::Serialize for HashSet<T, S> { fn serialize<Z: serde::Serializer>(&self, s: Z) -> Result<Z::Ok, Z::Error> { s.collect_seq(self.iter()) } }
impl<'de, T: serde::Deserialize<'de> + Eq, S> serde::Deserialize<'de> for HashSet<T, S> {
    fn deserialize<D: serde::Deserializer<'de>>(d: D) -> Result<Self, D::Error> { let v: Vec<T> = Vec::deserialize(d)?; Ok(v.into_iter().collect()) }
}
