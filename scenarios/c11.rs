//! C11 — recovery returns everything persisted: the WAL replay leg.
//! (A) an entry that is only in the WAL is replayed whatever the segments' stamps are;
//! (B) WalReader::entries_after / WalRotator::recover_all_entries return every intact entry at or above
//!     the threshold, in order, and a damaged file does not hide the entries of another file (also C10).
use crate::env;
use crate::vs;
use redis_sim::streaming::{WalEntry, WalError, WalFileReader, WalFileWriter, WalReader, WalRotator, WalStore};

pub fn wal_only_entry() {
    let (m0, m1, ts) = (vs::u64(), vs::u64(), vs::u64());
    vs::assume(m0 < (1 << 62) && m1 < (1 << 62) && ts < (1 << 62));
    let replayed = env::wal_only_entry_replayed([m0, m1], ts);
    vcheck!(replayed, "recovery:an update that is only in the WAL is dropped (its stamp is below another shard's flushed stamp)");
    vcover!(ts < m0, "WAL stamp below a segment's maximum");
}

const HDR: [u8; 16] = [b'R', b'W', b'A', b'L', 1, 0, 0, 0, 1, 0, 0, 0, 0, 0, 0, 0];
/// encoded entry with a 1-byte payload and the given stamp (CRC of the payload is a constant)
fn enc(ts: u64, payload: u8) -> Vec<u8> { enc_n(ts, payload, 1) }
/// same with a payload of n copies of the byte (n = 0: an entry that is header only)
fn enc_n(ts: u64, payload: u8, n: usize) -> Vec<u8> {
    let mut data = Vec::with_capacity(n);
    let mut i = 0;
    while i < n { data.push(payload); i += 1; }
    let e = WalEntry { checksum: crc32fast::hash(&data), data, timestamp: ts };
    let v = e.encode();
    std::mem::forget(e);
    v
}
pub struct ImgReader(pub Vec<u8>);
impl WalFileReader for ImgReader { fn read_all(&mut self) -> Result<Vec<u8>, WalError> { Ok(std::mem::take(&mut self.0)) } }

/// two entries with symbolic stamps (non-monotone allowed), symbolic threshold
pub fn entries_after(n1: usize, n2: usize) {
    let (t1, t2, th) = (vs::u64(), vs::u64(), vs::u64());
    let mut img = HDR.to_vec();
    img.extend_from_slice(&enc_n(t1, 7, n1));
    img.extend_from_slice(&enc_n(t2, 9, n2));
    let r = WalReader::open(ImgReader(img));
    vcheck!(r.is_ok(), "wal:valid image opens");
    if let Ok(rd) = r {
        let all = rd.entries();
        vcheck!(all.len() == 2 && all[0].timestamp == t1 && all[1].timestamp == t2 && all[0].data.len() == n1 && all[1].data.len() == n2 && (n1 == 0 || all[0].data[0] == 7) && (n2 == 0 || all[1].data[0] == 9), "wal:entries() returns every intact entry in append order");
        let got = rd.entries_after(th);
        let want = (if t1 >= th { 1 } else { 0 }) + (if t2 >= th { 1 } else { 0 });
        vcheck!(got.len() == want, "wal:entries_after drops an entry stamped at or above the threshold (or keeps one below)");
        if want == 2 && got.len() == 2 { vcheck!(got[0].timestamp == t1 && got[1].timestamp == t2, "wal:entries_after keeps append order"); }
        if want == 1 && got.len() == 1 { vcheck!(got[0].timestamp == (if t1 >= th { t1 } else { t2 }), "wal:entries_after returns the right entry"); }
        vcover!(t2 < t1 && t2 >= th, "non-monotone stamps");
        std::mem::forget((all, got, rd));
    }
}

// ---- a two-file image store for recover_all_entries / truncate_before --------------------------------
pub static mut FILES: [Vec<u8>; 2] = [Vec::new(), Vec::new()];
pub static mut DELETED: [bool; 2] = [false, false];
#[derive(Clone)]
pub struct TwoFiles;
pub struct NullWriter;
impl WalFileWriter for NullWriter {
    fn append(&mut self, _d: &[u8]) -> Result<u64, WalError> { Ok(0) }
    fn sync(&mut self) -> Result<(), WalError> { Ok(()) }
    fn size(&self) -> u64 { 0 }
}
fn idx(name: &str) -> usize { if name.as_bytes()[11] == b'1' { 0 } else { 1 } } // wal-00000001.wal / wal-00000002.wal
impl WalStore for TwoFiles {
    type Writer = NullWriter;
    type Reader = ImgReader;
    fn create(&self, _n: &str) -> Result<NullWriter, WalError> { Ok(NullWriter) }
    fn open_read(&self, n: &str) -> Result<ImgReader, WalError> { unsafe { Ok(ImgReader(FILES[idx(n)].clone())) } }
    fn list(&self) -> Result<Vec<String>, WalError> {
        let mut v = Vec::new();
        unsafe {
            if !DELETED[0] { v.push("wal-00000001.wal".to_string()); }
            if !DELETED[1] { v.push("wal-00000002.wal".to_string()); }
        }
        Ok(v)
    }
    fn delete(&self, n: &str) -> Result<(), WalError> { unsafe { DELETED[idx(n)] = true; } Ok(()) }
    fn exists(&self, n: &str) -> Result<bool, WalError> { unsafe { Ok(!DELETED[idx(n)]) } }
}

/// file 1 is damaged in its header (one symbolic byte of the 16 overwritten with a symbolic value) or cut
/// short; file 2 is intact: its entry is recovered
pub fn damaged_file_isolated() {
    let (t1, t2) = (vs::u64(), vs::u64());
    let mut f1 = HDR.to_vec();
    f1.extend_from_slice(&enc(t1, 1));
    let pos = vs::usize();
    vs::assume(pos < 16);
    f1[pos] = vs::u8();
    let mut f2 = HDR.to_vec();
    f2[8] = 2;
    f2.extend_from_slice(&enc(t2, 2));
    unsafe { FILES = [f1, f2]; DELETED = [false, false]; }
    let rot = WalRotator::new(TwoFiles, 1 << 20);
    if let Ok(rot) = rot {
        let all = rot.recover_all_entries();
        match &all {
            Ok(v) => {
                let mut found = false;
                let mut i = 0;
                while i < v.len() { if v[i].timestamp == t2 && v[i].data[0] == 2 { found = true; } i += 1; }
                vcheck!(found, "wal:a damaged file hides intact entries of another file");
                vcheck!(v.len() <= 2, "wal:recovery invents entries");
            }
            Err(_) => { vcheck!(false, "wal:a damaged file makes the whole recovery fail"); }
        }
        std::mem::forget((all, rot));
    }
}

/// truncate_before(T) with two closed files (one entry each, symbolic stamps): a file is deleted only if
/// its entry is stamped <= T, so every entry stamped later than T is still recovered afterwards
pub fn truncation_keeps_newer() {
    let (t1, t2, th) = (vs::u64(), vs::u64(), vs::u64());
    let mut f1 = HDR.to_vec();
    f1.extend_from_slice(&enc(t1, 1));
    let mut f2 = HDR.to_vec();
    f2[8] = 2;
    f2.extend_from_slice(&enc(t2, 2));
    unsafe { FILES = [f1, f2]; DELETED = [false, false]; }
    if let Ok(mut rot) = WalRotator::new(TwoFiles, 1 << 20) {
        let r = rot.truncate_before(th);
        vcheck!(r.is_ok(), "wal:truncate_before fails on intact files");
        let (d1, d2) = unsafe { (DELETED[0], DELETED[1]) };
        vcheck!(!(d1 && t1 > th) && !(d2 && t2 > th), "wal:truncation removed an entry stamped later than the threshold");
        vcover!(d1 && !d2, "first file deleted only");
        std::mem::forget((r, rot));
    }
}

/// truncate_before(T) with one closed file holding TWO header-only entries with symbolic, possibly non-monotone
/// stamps (stamps of several shards / replicas are logged in arrival order) and an intact second file: the closed file
/// may be deleted only if BOTH entries are stamped <= T
pub fn truncation_two_entries() {
    let (t1, t2, t3, th) = (vs::u64(), vs::u64(), vs::u64(), vs::u64());
    let mut f1 = HDR.to_vec();
    f1.extend_from_slice(&enc_n(t1, 7, 0));
    f1.extend_from_slice(&enc_n(t2, 9, 0));
    let mut f2 = HDR.to_vec();
    f2[8] = 2;
    f2.extend_from_slice(&enc_n(t3, 2, 0));
    unsafe { FILES = [f1, f2]; DELETED = [false, false]; }
    if let Ok(mut rot) = WalRotator::new(TwoFiles, 1 << 20) {
        let r = rot.truncate_before(th);
        vcheck!(r.is_ok(), "wal:truncate_before fails on intact files");
        let (d1, d2) = unsafe { (DELETED[0], DELETED[1]) };
        vcheck!(!(d1 && (t1 > th || t2 > th)), "wal:truncation removed an entry stamped later than the threshold (file with non-monotone stamps)");
        vcheck!(!(d2 && t3 > th), "wal:truncation removed an entry stamped later than the threshold");
        std::mem::forget((r, rot));
    }
}

pub fn twin() {
    let mut img = HDR.to_vec();
    img.extend_from_slice(&enc(vs::u64(), 7));
    let r = WalReader::open(ImgReader(img));
    let n = match &r { Ok(rd) => rd.entries().len(), Err(_) => 0 };
    vcheck!(n == 0, "twin:reachable");
    std::mem::forget(r);
}

/// recover()'s segment selection (the statements between reading the checkpoint and fetching the first segment):
/// `n` listed segments with symbolic distinct ids and symbolic minimum stamps (equal minima included), optionally a
/// checkpoint covering segments up to a symbolic id. Every listed segment that the checkpoint does not cover must be
/// loaded; nothing that is not listed may be.
pub fn segment_plan(n: usize, ck: i64) {
    // ids are concrete and distinct (1,2,3 in list order or reversed); minimum stamps are drawn from {5,7} (so that
    // equal and unequal minima, in either order, are all covered); the checkpoint's last id is any of 0..=3
    let rev = vs::bool();
    let ids = if rev { [3u64, 2, 1] } else { [1u64, 2, 3] };
    let ids = if n == 2 && rev { [2u64, 1, 3] } else { ids };
    let mins = [if vs::bool() { 5u64 } else { 7 }, if vs::bool() { 5u64 } else { 7 }, if vs::bool() { 5u64 } else { 7 }];
    // checkpoint presence and its last segment id are concrete per harness instance (the number of segments that
    // pass the filter is then a constant, which keeps std's sort on a slice of known length)
    let has_ck = ck >= 0;
    let last = if ck >= 0 { ck as u64 } else { 0 };
    let plan = crate::env::recover_plan(&ids[..n], &mins[..n], if has_ck { Some(last) } else { None });
    let mut all = true;
    let mut i = 0;
    while i < n {
        if !has_ck || ids[i] > last {
            let mut found = false;
            let mut j = 0;
            while j < plan.len() { if plan[j] == ids[i] { found = true; } j += 1; }
            if !found { all = false; }
        }
        i += 1;
    }
    vcheck!(all, "plan:a listed segment that the checkpoint does not cover is not loaded by recover()");
    let mut only = true;
    let mut j = 0;
    while j < plan.len() {
        let mut listed = false;
        let mut i = 0;
        while i < n { if ids[i] == plan[j] { listed = true; } i += 1; }
        if !listed { only = false; }
        j += 1;
    }
    vcheck!(only, "plan:recover() loads a segment the manifest does not list");
    vcover!(n > 1 && mins[0] == mins[1], "two segments with equal minimum stamps");
    std::mem::forget(plan);
}
