use crate::vs;
use redis_sim::redis::SDS;
use redis_sim::replication::lattice::{LamportClock, LwwRegister, ReplicaId};
use redis_sim::replication::state::{CrdtValue, ReplicatedValue};

/// replica ids are drawn from {0,1,2}
pub fn any_replica() -> ReplicaId {
    let r = vs::u8();
    vs::assume(r <= 2);
    ReplicaId(r as u64)
}
/// arbitrary Lamport stamp below 2^62 (wrap-around of a u64 Lamport clock is outside every claim)
pub fn any_clock() -> LamportClock {
    let t = vs::u64();
    vs::assume(t < (1u64 << 62));
    LamportClock { time: t, replica_id: any_replica() }
}
/// inline SDS of 0..=2 symbolic bytes (unused bytes zero, as every constructor leaves them)
pub fn any_sds2() -> SDS {
    let len = vs::u8();
    vs::assume(len <= 2);
    let mut data = [0u8; 23];
    let b0 = vs::u8();
    let b1 = vs::u8();
    if len >= 1 { data[0] = b0; }
    if len >= 2 { data[1] = b1; }
    SDS::Inline { len, data }
}
/// one-byte SDS
pub fn sds1(b: u8) -> SDS {
    let mut data = [0u8; 23];
    data[0] = b;
    SDS::Inline { len: 1, data }
}
/// arbitrary register: value present/absent, tombstone flag, stamp — as `set`/`delete`/`new` produce:
/// tombstone => no value
pub fn any_lww() -> LwwRegister<SDS> {
    let tomb = vs::bool();
    let has = vs::bool();
    let v = any_sds2();
    let ts = any_clock();
    LwwRegister { value: if has && !tomb { Some(v) } else { None }, timestamp: ts, tombstone: tomb }
}
/// LWW replicated value holding one byte (or a tombstone) with the given stamp
pub fn lww_value(b: u8, tomb: bool, ts: LamportClock) -> ReplicatedValue {
    ReplicatedValue {
        crdt: CrdtValue::Lww(LwwRegister { value: if tomb { None } else { Some(sds1(b)) }, timestamp: ts, tombstone: tomb }),
        vector_clock: None, expiry_ms: None, timestamp: ts, replication_factor: None,
    }
}
pub fn any_opt_u64() -> Option<u64> {
    let has = vs::bool();
    let v = vs::u64();
    if has { Some(v) } else { None }
}
pub fn any_opt_u8() -> Option<u8> {
    let has = vs::bool();
    let v = vs::u8();
    if has { Some(v) } else { None }
}
/// two registers with equal stamps hold identical contents (stamps are unique per write: C08)
pub fn lww_same(a: &LwwRegister<SDS>, b: &LwwRegister<SDS>) -> bool {
    a.tombstone == b.tombstone
        && match (&a.value, &b.value) {
            (Some(x), Some(y)) => sds_eq(x, y),
            (None, None) => true,
            _ => false,
        }
}
pub fn sds_eq(a: &SDS, b: &SDS) -> bool {
    let (x, y) = (a.as_bytes(), b.as_bytes());
    if x.len() != y.len() { return false; }
    let mut i = 0;
    while i < x.len() { if x[i] != y[i] { return false; } i += 1; }
    true
}
pub fn opt_sds_eq(a: Option<&SDS>, b: Option<&SDS>) -> bool {
    match (a, b) { (Some(x), Some(y)) => sds_eq(x, y), (None, None) => true, _ => false }
}
pub fn lww_obs_eq(a: &LwwRegister<SDS>, b: &LwwRegister<SDS>) -> bool {
    opt_sds_eq(a.get(), b.get()) && a.tombstone == b.tombstone && a.timestamp == b.timestamp
}

/// copy a concrete byte string into a stack array by individual constant assignments (no loop, no memcpy):
/// CBMC keeps the bytes as constants, so code that scans or parses them is executed concretely.
pub fn put_const<const N: usize>(b: &mut [u8; N], at: usize, src: &[u8]) {
    macro_rules! one { ($($i:literal)*) => { $( if src.len() > $i { b[at + $i] = src[$i]; } )* } }
    one!(0 1 2 3 4 5 6 7 8 9 10 11 12 13 14 15 16 17 18 19 20 21 22 23 24 25 26 27 28 29 30 31);
}
