//! C04 — pipelining: the synchronous decision procedures of the connection handler.
//! (a) batch collectors and fast-path parsers consume exactly the frames they return, never a malformed
//! one, and leave an incomplete buffer untouched; (b) every command a collector consumes is answered.
//! Under Kani the S3-extracted function texts run on solver bytes; natively the real handler answers.
use crate::env;
use crate::vs;

pub const MAXB: usize = 64;
const GET_HDR: &[u8] = b"*2\r\n$3\r\nGET\r\n";
const GET_HDR_LC: &[u8] = b"*2\r\n$3\r\nget\r\n";
const SET_HDR: &[u8] = b"*3\r\n$3\r\nSET\r\n";

fn put(b: &mut [u8; MAXB], n: &mut usize, src: &[u8]) { super::util::put_const(b, *n, src); *n += src.len(); }
fn put_sym(b: &mut [u8; MAXB], n: &mut usize, k: usize) { let mut i = 0; while i < k { b[*n] = vs::u8(); *n += 1; i += 1; } }
fn eq(a: &[u8], b: &[u8]) -> bool { if a.len() != b.len() { return false; } let mut i = 0; while i < a.len() { if a[i] != b[i] { return false; } i += 1; } true }

/// one GET frame: header, `$<lentext>`, 2 symbolic bytes where CRLF belongs, `klen` symbolic key bytes,
/// 2 symbolic terminator bytes; optionally followed by a second, well-formed GET of a 1-byte key.
/// `declared`: Some(klen) when lentext is the true length, None when it is not a usable length.
pub fn get_frame(lentext: &'static [u8], declared: Option<usize>, klen: usize, second: bool, lower: bool, which: u8) {
    let mut b = [0u8; MAXB];
    let mut n = 0;
    put(&mut b, &mut n, if lower { GET_HDR_LC } else { GET_HDR });
    put(&mut b, &mut n, b"$");
    put(&mut b, &mut n, lentext);
    let crlf_at = n;
    put_sym(&mut b, &mut n, 2);
    let key_at = n;
    put_sym(&mut b, &mut n, klen);
    let term_at = n;
    put_sym(&mut b, &mut n, 2);
    let first_len = n;
    if second { put(&mut b, &mut n, GET_HDR); put(&mut b, &mut n, b"$1\r\n"); put_sym(&mut b, &mut n, 1); put(&mut b, &mut n, b"\r\n"); }
    let wellformed = declared == Some(klen) && b[crlf_at] == b'\r' && b[crlf_at + 1] == b'\n' && b[term_at] == b'\r' && b[term_at + 1] == b'\n';
    // a '\r' inside the key does not make the frame malformed, but one inside the 2 header bytes moves the
    // collector's idea of where the length ends: only judge frames whose length line ends where it should
    vs::assume(b[crlf_at] == b'\r' || (b[crlf_at] != b'\r' && b[crlf_at + 1] != b'\r'));
    if which == 0 {
        let (keys, count, left) = env::collect_get_keys(&b[..n]);
        vcheck!(count == keys.len(), "collect:count equals number of keys");
        let consumed = n - left;
        if wellformed {
            // declining a well-formed frame is fine (the generic parser takes it); what is returned must be right
            if count >= 1 {
                vcheck!(eq(&keys[0], &b[key_at..key_at + klen]), "collect:key bytes");
                let want = if count == 2 { n } else { first_len };
                vcheck!(consumed == want, "collect:bytes consumed are exactly the frames of the keys returned");
            } else {
                vcheck!(consumed == 0, "collect:nothing may be consumed when no key is returned");
            }
            vcheck!(count <= if second { 2 } else { 1 }, "collect:more keys than frames");
        } else {
            vcheck!(count == 0, "collect:malformed or mis-declared frame accepted by the batch collector");
            vcheck!(consumed == 0, "collect:nothing may be consumed when no key is returned");
        }
        vcover!(wellformed, "well-formed frame");
        vcover!(!wellformed, "malformed frame");
        // glue: whatever the collector consumed must be answered by run(), for every batching threshold
        let t = vs::usize();
        vs::assume(t >= 1 && t <= 4);
        let admitted = env::consumed_gets_answered(&b[..n], count, t);
        vcheck!(count == 0 || admitted, "glue:GETs consumed by the batch collector are not answered (fewer than the batching threshold)");
        std::mem::forget(keys);
    } else {
        let (r, left) = env::fast_get_parse(&b[..first_len]);
        let consumed = first_len - left;
        if wellformed {
            if let Ok((k, used)) = &r {
                vcheck!(vs::NATIVE || (eq(k, &b[key_at..key_at + klen]) && *used == first_len), "fast:key / size of the frame");
                vcheck!(consumed == first_len, "fast:bytes consumed are exactly the frame");
            }
        } else {
            vcheck!(r.is_err(), "fast:malformed or mis-declared frame accepted by the fast path");
            vcheck!(vs::NATIVE || consumed == 0, "fast:nothing may be consumed when the frame is not handled");
        }
        std::mem::forget(r);
    }
}

/// buffer that ends inside the first frame (cut at `cut` bytes of a well-formed `GET k`, key 2 bytes):
/// nothing is returned and nothing is consumed
pub fn get_incomplete(cut: usize) {
    let mut b = [0u8; MAXB];
    let mut n = 0;
    put(&mut b, &mut n, GET_HDR);
    put(&mut b, &mut n, b"$2\r\n");
    put_sym(&mut b, &mut n, 2);
    put(&mut b, &mut n, b"\r\n");
    let (keys, count, left) = env::collect_get_keys(&b[..cut]);
    vcheck!(count == 0 && keys.is_empty(), "collect:incomplete frame must not yield a key");
    vcheck!(left == cut, "collect:incomplete frame must be left untouched");
    std::mem::forget(keys);
}

/// one SET frame with symbolic separators, key of `klen` and value of `vlen` symbolic bytes
pub fn set_frame(klen: usize, vlen: usize, which: u8) {
    let mut b = [0u8; MAXB];
    let mut n = 0;
    put(&mut b, &mut n, SET_HDR);
    put(&mut b, &mut n, b"$");
    put(&mut b, &mut n, if klen == 1 { b"1" } else { b"2" });
    let c1 = n; put_sym(&mut b, &mut n, 2);
    let key_at = n; put_sym(&mut b, &mut n, klen);
    let c2 = n; put_sym(&mut b, &mut n, 2);
    put(&mut b, &mut n, b"$");
    put(&mut b, &mut n, if vlen == 1 { b"1" } else { b"2" });
    let c3 = n; put_sym(&mut b, &mut n, 2);
    let val_at = n; put_sym(&mut b, &mut n, vlen);
    let c4 = n; put_sym(&mut b, &mut n, 2);
    let crlf = |i: usize| b[i] == b'\r' && b[i + 1] == b'\n';
    let wellformed = crlf(c1) && crlf(c2) && crlf(c3) && crlf(c4);
    vs::assume((b[c1] == b'\r' || b[c1 + 1] != b'\r') && (b[c3] == b'\r' || b[c3 + 1] != b'\r'));
    if which == 0 {
        let (pairs, count, left) = env::collect_set_pairs(&b[..n]);
        let consumed = n - left;
        if wellformed {
            vcheck!(count == pairs.len() && count <= 1, "collect:more pairs than frames");
            if pairs.len() == 1 {
                vcheck!(eq(&pairs[0].0, &b[key_at..key_at + klen]) && eq(&pairs[0].1, &b[val_at..val_at + vlen]), "collect:key/value bytes");
                vcheck!(consumed == n, "collect:bytes consumed are exactly the frames of the pairs returned");
            } else {
                vcheck!(consumed == 0, "collect:nothing may be consumed when no pair is returned");
            }
        } else {
            vcheck!(count == 0, "collect:malformed or mis-declared frame accepted by the batch collector");
            vcheck!(consumed == 0, "collect:nothing may be consumed when no pair is returned");
        }
        std::mem::forget(pairs);
    } else {
        let (r, left) = env::fast_set_parse(&b[..n]);
        if wellformed {
            vcheck!(r.is_err() || left == 0, "fast:bytes consumed are exactly the frame");
            vcheck!(r.is_ok() || vs::NATIVE || left == n, "fast:nothing may be consumed when the frame is not handled");
        } else {
            vcheck!(r.is_err(), "fast:malformed or mis-declared frame accepted by the fast path");
            vcheck!(vs::NATIVE || left == n, "fast:nothing may be consumed when the frame is not handled");
        }
        std::mem::forget(r);
    }
}

/// segmentation independence of the decoder as run() drives it: a 2-frame stream (`SET k v` then `GET k`,
/// symbolic key/value bytes) arriving in two reads split at `cut` yields the same frames as arriving whole
pub fn segmentation(cut: usize) {
    use bytes::BytesMut;
    use redis_sim::redis::{RespCodec, RespValueZeroCopy};
    let mut b = [0u8; MAXB];
    let mut n = 0;
    put(&mut b, &mut n, b"*3\r\n$3\r\nSET\r\n$1\r\n");
    put_sym(&mut b, &mut n, 1);
    put(&mut b, &mut n, b"\r\n$2\r\n");
    put_sym(&mut b, &mut n, 2);
    put(&mut b, &mut n, b"\r\n");
    let f1 = n;
    put(&mut b, &mut n, b"*2\r\n$3\r\nGET\r\n$1\r\n");
    put_sym(&mut b, &mut n, 1);
    put(&mut b, &mut n, b"\r\n");
    // the loop of run(): append what was read, decode until "need more"
    let mut buf = BytesMut::with_capacity(MAXB);
    let mut frames = 0usize;
    let mut errors = 0usize;
    let mut sizes = [0usize; 4];
    let mut round = 0;
    while round < 2 {
        let (lo, hi) = if round == 0 { (0, cut) } else { (cut, n) };
        buf.extend_from_slice(&b[lo..hi]);
        let mut guard = 0;
        while guard < 3 {
            let before = buf.len();
            match RespCodec::parse(&mut buf) {
                Ok(Some(v)) => { if frames < 4 { sizes[frames] = before - buf.len(); } frames += 1; std::mem::forget(v); }
                Ok(None) => { break; }
                Err(e) => { errors += 1; std::mem::forget(e); break; }
            }
            guard += 1;
        }
        round += 1;
    }
    vcheck!(errors == 0, "stream:well-formed stream reported as a protocol error under fragmentation");
    vcheck!(frames == 2, "stream:fragmented stream does not yield exactly its two frames");
    vcheck!(frames != 2 || (sizes[0] == f1 && sizes[1] == n - f1), "stream:frame boundaries differ under fragmentation");
    vcheck!(buf.is_empty(), "stream:bytes left over after the last frame");
    std::mem::forget(buf);
}

pub fn twin() {
    let mut b = [0u8; MAXB];
    let mut n = 0;
    put(&mut b, &mut n, GET_HDR);
    put(&mut b, &mut n, b"$1\r\n");
    put_sym(&mut b, &mut n, 1);
    put(&mut b, &mut n, b"\r\n");
    let (keys, count, _left) = env::collect_get_keys(&b[..n]);
    vcheck!(count > 1, "twin:reachable");
    std::mem::forget(keys);
}
