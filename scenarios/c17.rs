//! C17 — a command that fails changes nothing; a read-only command changes nothing (per operation,
//! called directly on a bare executor whose keyspace is built by direct insertion).
use super::util::sds1;
use crate::vs;
use redis_sim::redis::{CommandExecutor, RedisHash, RedisList, RedisSet, RespValue, Value, SDS};
use redis_sim::simulator::VirtualTime;

/// observable state of one key: (exists, type tag, size, first byte of content, deadline)
#[derive(PartialEq, Clone, Copy)]
pub struct Snap { exists: bool, ty: u8, size: usize, b0: u8, b1: u8, deadline: Option<u64> }
fn snap(ex: &CommandExecutor, key: &str) -> Snap {
    let dl = ex.verif_expirations().get(key).map(|v| v.as_millis());
    match ex.verif_data().get(key) {
        None => Snap { exists: false, ty: 0, size: 0, b0: 0, b1: 0, deadline: dl },
        Some(Value::String(s)) => { let b = s.as_bytes(); Snap { exists: true, ty: 1, size: b.len(), b0: if b.len() > 0 { b[0] } else { 0 }, b1: if b.len() > 1 { b[1] } else { 0 }, deadline: dl } }
        Some(Value::List(l)) => Snap { exists: true, ty: 2, size: l.len(), b0: l.get(0).map(|s| s.as_bytes()[0]).unwrap_or(0), b1: l.get(-1).map(|s| s.as_bytes()[0]).unwrap_or(0), deadline: dl },
        Some(Value::Set(s)) => Snap { exists: true, ty: 3, size: s.len(), b0: if s.contains(&sds1(b'm')) { 1 } else { 0 }, b1: 0, deadline: dl },
        Some(Value::Hash(h)) => Snap { exists: true, ty: 4, size: h.len(), b0: h.get(&sds1(b'f')).map(|s| s.as_bytes()[0]).unwrap_or(0), b1: 0, deadline: dl },
        Some(Value::SortedSet(z)) => Snap { exists: true, ty: 5, size: z.len(), b0: 0, b1: 0, deadline: dl },
        Some(Value::Null) => Snap { exists: true, ty: 6, size: 0, b0: 0, b1: 0, deadline: dl },
    }
}
fn is_err(r: &RespValue) -> bool { matches!(r, RespValue::Error(_)) }

/// keyspace built by direct insertion: any subset of "s" string (one symbolic byte), "l" list [x] carrying a
/// deadline, "h" hash {f: x}, "t" set {m} - each harness builds only the keys it touches plus one bystander
/// (a smaller world keeps the solver query small; the oracle compares every key that exists)
fn world_of(keys: &[u8]) -> CommandExecutor {
    let mut ex = CommandExecutor::verif_new_bare();
    ex.update_time_readonly(VirtualTime::from_millis(10));
    let x = vs::u8();
    let mut i = 0;
    while i < keys.len() {
        match keys[i] {
            b's' => { ex.verif_data_mut().insert("s".to_string(), Value::String(sds1(x))); }
            b'l' => {
                let mut l = RedisList::new(); l.rpush(sds1(x));
                ex.verif_data_mut().insert("l".to_string(), Value::List(l));
                let d = vs::u64();
                vs::assume(d > 10 && d < (1u64 << 40));
                ex.verif_expirations_mut().insert("l".to_string(), VirtualTime::from_millis(d));
            }
            b'h' => { let mut h = RedisHash::new(); h.set(sds1(b'f'), sds1(x)); ex.verif_data_mut().insert("h".to_string(), Value::Hash(h)); }
            _ => { let mut t = RedisSet::new(); t.add(sds1(b'm')); ex.verif_data_mut().insert("t".to_string(), Value::Set(t)); }
        }
        i += 1;
    }
    ex
}
fn world() -> CommandExecutor { world_of(b"slht") }

/// string-family operations on wrong-typed keys, and list/hash/set operations on the string key:
/// reply is an error and nothing changes. `op` selects the operation.
pub fn wrong_type(op: u8) {
    let keys: &[u8] = match op { 0 | 2 | 10 | 11 => b"ls", 1 | 9 => b"hl", 3 | 13 => b"tl", 4 | 5 | 8 => b"sl", 6 => b"ls", 7 => b"hl", _ => b"ls" };
    let mut ex = world_of(keys);
    let before = [snap(&ex, "s"), snap(&ex, "l"), snap(&ex, "h"), snap(&ex, "t")];
    let n = vs::i64();
    let i = vs::isize();
    let v = sds1(vs::u8());
    let r = match op {
        0 => ex.verif_incr_by("l", n),
        1 => ex.verif_append("h", &v),
        2 => ex.verif_getrange("l", i, vs::isize()),
        3 => ex.verif_setrange("t", 0, &v),
        4 => ex.verif_lpush("s", &[v.clone()]),
        5 => ex.verif_lset("s", i, &v),
        6 => ex.verif_hset("l", &[(sds1(b'g'), v.clone())]),
        7 => ex.verif_sadd("h", &[v.clone()]),
        8 => ex.verif_hincrby("s", &sds1(b'f'), n),
        9 => ex.verif_lpop("h"),
        10 => ex.verif_getset("l", &v),
        11 => ex.verif_set("l", &v, &None, &None, &None, &None, &false, &false, &true, &false), // SET ... GET on a list
        12 => ex.verif_rpoplpush("l", "s"),
        _ => ex.verif_strlen("t"),
    };
    let after = [snap(&ex, "s"), snap(&ex, "l"), snap(&ex, "h"), snap(&ex, "t")];
    vcheck!(is_err(&r), "wrongtype:operation on a key of another type must reply with an error");
    vcheck!(before[0] == after[0] && before[1] == after[1] && before[2] == after[2] && before[3] == after[3], "unchanged:a failing command changed the keyspace or a TTL");
    std::mem::forget((r, ex, v));
}

/// right-typed key, failing arguments: 0 INCRBY overflow on i64::MAX, 1 INCRBY on a non-number,
/// 2 LSET out of range, 3 SETRANGE beyond 512MB, 4 SET with invalid PX, 5 EXPIRE out of range,
/// 6 HINCRBY on a non-numeric field, 7 SET EX beyond the representable range on a list key, 8 same on a missing key
pub fn bad_args(op: u8) {
    let keys: &[u8] = match op { 0 | 1 | 3 => b"sl", 2 | 4 | 5 | 7 | 8 => b"ls", _ => b"hl" };
    let mut ex = world_of(keys);
    if op == 0 { ex.verif_data_mut().insert("s".to_string(), Value::String(SDS::from_str("9223372036854775807"))); }
    let before = [snap(&ex, "s"), snap(&ex, "l"), snap(&ex, "h"), snap(&ex, "t")];
    let v = sds1(vs::u8());
    let r = match op {
        0 => { let n = vs::i64(); vs::assume(n > 0); ex.verif_incr_by("s", n) }
        1 => { let n = vs::i64(); ex.verif_data_mut().insert("s".to_string(), Value::String(sds1(b'x'))); ex.verif_incr_by("s", n) }
        2 => { let i = vs::isize(); vs::assume(i >= 1 || i < -1); ex.verif_lset("l", i, &v) }
        3 => { let off = vs::usize(); vs::assume(off > 512 * 1024 * 1024); ex.verif_setrange("s", off, &v) }
        4 => { let px = vs::i64(); vs::assume(px <= 0); ex.verif_set("l", &v, &None, &Some(px), &None, &None, &false, &false, &false, &false) }
        5 => { let s = vs::i64(); vs::assume(s > i64::MAX / 1000); ex.verif_expire("l", s, false, false, false, false) }
        7 => { let sec = vs::i64(); vs::assume(sec > i64::MAX / 1000); ex.verif_set("l", &v, &Some(sec), &None, &None, &None, &false, &false, &false, &false) }
        8 => { let sec = vs::i64(); vs::assume(sec > i64::MAX / 1000); ex.verif_set("nokey", &v, &Some(sec), &None, &None, &None, &false, &false, &false, &false) }
        _ => { let n = vs::i64(); ex.verif_data_mut().insert("h".to_string(), { let mut h = RedisHash::new(); h.set(sds1(b'f'), sds1(b'x')); Value::Hash(h) }); ex.verif_hincrby("h", &sds1(b'f'), n) }
    };
    let before = if op == 1 || op == 6 { [snap(&ex, "s"), before[1], snap(&ex, "h"), before[3]] } else { before };
    let after = [snap(&ex, "s"), snap(&ex, "l"), snap(&ex, "h"), snap(&ex, "t")];
    vcheck!(is_err(&r), "badargs:invalid arguments must reply with an error");
    vcheck!(!ex.verif_data().contains_key("nokey"), "unchanged:a failing command created a key");
    vcheck!(before[0] == after[0] && before[1] == after[1] && before[2] == after[2] && before[3] == after[3], "unchanged:a failing command changed the keyspace or a TTL");
    std::mem::forget((r, ex, v));
}

/// read-only operations leave everything as it was (on keys of every type, existing or not)
pub fn read_only(op: u8) {
    let mut ex = world_of(b"sl");
    let before = [snap(&ex, "s"), snap(&ex, "l"), snap(&ex, "h"), snap(&ex, "t")];
    let which = vs::u8();
    vs::assume(which < 3);
    let key = match which { 0 => "s", 1 => "l", _ => "nokey" };
    let r = match op {
        0 => ex.verif_get(key),
        1 => ex.verif_strlen(key),
        2 => ex.verif_getrange(key, vs::isize(), vs::isize()),
        3 => ex.verif_llen(key),
        4 => ex.verif_lindex(key, vs::isize()),
        5 => ex.verif_lrange(key, vs::isize(), vs::isize()),
        6 => ex.verif_hget(key, &sds1(b'f')),
        7 => ex.verif_hlen(key),
        8 => ex.verif_scard(key),
        9 => ex.verif_ttl(key),
        10 => ex.verif_pttl(key),
        11 => ex.verif_typeof(key),
        _ => ex.verif_exists(&[key.to_string()]),
    };
    let after = [snap(&ex, "s"), snap(&ex, "l"), snap(&ex, "h"), snap(&ex, "t")];
    vcheck!(before[0] == after[0] && before[1] == after[1] && before[2] == after[2] && before[3] == after[3], "readonly:a read-only command changed the keyspace or a TTL");
    vcheck!(!ex.verif_data().contains_key("nokey"), "readonly:a read created a key");
    std::mem::forget((r, ex));
}

pub fn twin() {
    let mut ex = world_of(b"s");
    let r = ex.verif_strlen("s");
    vcheck!(is_err(&r), "twin:reachable");
    std::mem::forget((r, ex));
}
