//! C19 — placement is a function of membership; selective gossip reaches every owner.
use crate::vs;
use redis_sim::replication::config::ReplicationConfig;
use redis_sim::replication::gossip_router::GossipRouter;
use redis_sim::replication::hash_ring::HashRing;
use redis_sim::replication::lattice::ReplicaId;
use std::sync::{Arc, RwLock};

/// from_config in an n-node cluster (ids 1..=n, peers listed in id order without self): the ids given
/// to the peers are exactly the other members
pub fn from_config_ids(n: u64) {
    let me = vs::u64();
    vs::assume(me >= 1 && me <= n);
    // the peer list is the same for every node: n-1 addresses "a","b",... = the other members in id order
    let mut cfg = ReplicationConfig::default();
    cfg.enabled = true;
    cfg.replica_id = me;
    cfg.peers = if n == 3 { vec!["a".to_string(), "b".to_string()] } else { vec!["a".to_string(), "b".to_string(), "c".to_string(), "d".to_string()] };
    let ring = Arc::new(RwLock::new(HashRing::new(Vec::new(), 1, 1)));
    let r = GossipRouter::from_config(&cfg, ring);
    vcheck!(r.get_peer_address(ReplicaId(me)).is_none(), "config:a peer is given this node's own id");
    let mut j = 1u64;
    let mut all = true;
    while j <= n {
        if j != me {
            let idx = if j < me { j - 1 } else { j - 2 };
            let ok = match r.get_peer_address(ReplicaId(j)) { Some(a) => a.as_bytes().len() == 1 && a.as_bytes()[0] == b'a' + idx as u8, None => false };
            if !ok { all = false; }
        }
        j += 1;
    }
    vcheck!(all, "config:a member's id does not map to that member's address");
    std::mem::forget((r, cfg));
}

pub fn twin() {
    let mut cfg = ReplicationConfig::default();
    cfg.replica_id = 2;
    cfg.peers = vec!["h1:1".to_string()];
    let ring = Arc::new(RwLock::new(HashRing::new(Vec::new(), 1, 1)));
    let r = GossipRouter::from_config(&cfg, ring);
    let got = r.get_peer_address(ReplicaId(1)).is_some();
    vcheck!(!got, "twin:reachable");
    std::mem::forget((r, cfg));
}
