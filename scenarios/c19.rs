//! C19 — placement is a function of membership; selective gossip reaches every owner.
use crate::vs;
use redis_sim::replication::config::ReplicationConfig;
use redis_sim::replication::gossip_router::GossipRouter;
use redis_sim::replication::hash_ring::HashRing;
use redis_sim::replication::lattice::ReplicaId;
use std::sync::{Arc, RwLock};

/// from_config in an n-node cluster (ids 1..=n, peers listed in id order without self): the ids given
/// to the peers are exactly the other members
pub fn from_config_ids(n: u64) {
    let me = vs::u64();
    vs::assume(me >= 1 && me <= n);
    // the peer list is the same for every node: n-1 addresses "a","b",... = the other members in id order
    let mut cfg = ReplicationConfig::default();
    cfg.enabled = true;
    cfg.replica_id = me;
    cfg.peers = if n == 3 { vec!["a".to_string(), "b".to_string()] } else { vec!["a".to_string(), "b".to_string(), "c".to_string(), "d".to_string()] };
    let ring = Arc::new(RwLock::new(HashRing::new(Vec::new(), 1, 1)));
    let r = GossipRouter::from_config(&cfg, ring);
    vcheck!(r.get_peer_address(ReplicaId(me)).is_none(), "config:a peer is given this node's own id");
    let mut j = 1u64;
    let mut all = true;
    while j <= n {
        if j != me {
            let idx = if j < me { j - 1 } else { j - 2 };
            let ok = match r.get_peer_address(ReplicaId(j)) { Some(a) => a.as_bytes().len() == 1 && a.as_bytes()[0] == b'a' + idx as u8, None => false };
            if !ok { all = false; }
        }
        j += 1;
    }
    vcheck!(all, "config:a member's id does not map to that member's address");
    std::mem::forget((r, cfg));
}

pub fn twin() {
    let mut cfg = ReplicationConfig::default();
    cfg.replica_id = 2;
    cfg.peers = vec!["h1:1".to_string()];
    let ring = Arc::new(RwLock::new(HashRing::new(Vec::new(), 1, 1)));
    let r = GossipRouter::from_config(&cfg, ring);
    let got = r.get_peer_address(ReplicaId(1)).is_some();
    vcheck!(!got, "twin:reachable");
    std::mem::forget((r, cfg));
}

// ---------------------------------------------------------------------------------------------
// hash ring: virtual-node positions from a concrete table per instance (several layouts, including
// adjacent virtual nodes of one physical node and positions at the ends of the u64 range), the key's
// position an arbitrary u64 -> every arc of the layout, the wrap-around and exact hits are covered.
// Natively the ring hashes for real; the same oracle is swept over 4000 real keys.
// ---------------------------------------------------------------------------------------------
const LAYOUTS: [[[u64; 2]; 5]; 3] = [
    // node 0 unused; nodes 1..=4, two virtual nodes each
    [[0, 0], [100, 5000], [200, 6000], [300, 7000], [400, 8000]],
    [[0, 0], [10, 20], [30, 18446744073709551615], [0, 40], [50, 60]],           // adjacent vnodes, positions 0 and u64::MAX
    [[0, 0], [9000, 100], [8000, 200], [7000, 300], [6000, 400]],                // interleaved the other way
];

fn replicas_ok(list: &[ReplicaId], rf: usize, members: usize) -> bool {
    let want = if rf < members { rf } else { members };
    if list.len() != want { return false; }
    let mut i = 0;
    while i < list.len() { let mut j = i + 1; while j < list.len() { if list[i] == list[j] { return false; } j += 1; } i += 1; }
    true
}
fn same(a: &[ReplicaId], b: &[ReplicaId]) -> bool { if a.len() != b.len() { return false; } let mut i = 0; while i < a.len() { if a[i] != b[i] { return false; } i += 1; } true }
fn contains(a: &[ReplicaId], x: ReplicaId) -> bool { let mut i = 0; while i < a.len() { if a[i] == x { return true; } i += 1; } false }

/// one judgement of the oracle for one key; returns (order_independent, well_formed, minimal_change, gossip_exact)
fn judge(key: &str, members: usize, rf: usize, removed: u64) -> (bool, bool, bool, bool) {
    let ids: [u64; 4] = [1, 2, 3, 4];
    let fwd: Vec<ReplicaId> = (0..members).map(|i| ReplicaId(ids[i])).collect();
    let rev: Vec<ReplicaId> = (0..members).rev().map(|i| ReplicaId(ids[i])).collect();
    let r1 = HashRing::new(fwd, 2, rf);
    let r2 = HashRing::new(rev, 2, rf);
    let a = r1.get_replicas(key);
    let b = r2.get_replicas(key);
    let order_independent = same(&a, &b);
    let well_formed = replicas_ok(&a, rf, members);
    // remove one member: placement changes only if the removed node was in the list
    let mut r3 = r1.clone();
    r3.remove_node(ReplicaId(removed));
    let c = r3.get_replicas(key);
    let minimal = contains(&a, ReplicaId(removed)) || same(&a, &c);
    let after_ok = replicas_ok(&c, rf, members - 1) && !contains(&c, ReplicaId(removed));
    // selective gossip from node 1: exactly the replicas other than the sender
    let g = r1.get_gossip_targets(key, ReplicaId(1));
    let mut gossip = !contains(&g, ReplicaId(1));
    let mut i = 0;
    while i < a.len() { if a[i] != ReplicaId(1) && !contains(&g, a[i]) { gossip = false; } i += 1; }
    let mut j = 0;
    while j < g.len() { if !contains(&a, g[j]) { gossip = false; } j += 1; }
    std::mem::forget((r1, r2, r3));
    (order_independent, well_formed, minimal && after_ok, gossip)
}

pub fn ring(layout: usize, members: usize) {
    let pos = vs::u64();
    let rf = vs::usize();
    vs::assume(rf >= 1 && rf <= 4);
    let removed = vs::u64();
    vs::assume(removed >= 1 && removed <= members as u64);
    crate::vs::ring_set(LAYOUTS[layout], pos);
    let (mut o, mut w, mut m, mut g) = judge("k", members, rf, removed);
    if vs::NATIVE {
        // real hash functions: sweep real keys with the solver's rf / removed member
        let mut i = 0;
        while i < 4000 {
            let key = format!("key:{}", i);
            let (o2, w2, m2, g2) = judge(&key, members, rf, removed);
            o &= o2; w &= w2; m &= m2; g &= g2;
            i += 1;
        }
    }
    vcheck!(o, "ring:replica list depends on the order in which members joined");
    vcheck!(w, "ring:replica list is not min(rf, cluster size) distinct members");
    vcheck!(m, "ring:removing a node changed the placement of a key it did not hold (or left it in a list)");
    vcheck!(g, "ring:selective gossip targets are not exactly the replicas other than the sender");
    vcover!(rf >= members, "replication factor covers the whole cluster");
}
