//! C19 — placement is a function of membership; selective gossip reaches every owner.
use crate::vs;
use redis_sim::replication::config::ReplicationConfig;
use redis_sim::replication::gossip_router::GossipRouter;
use redis_sim::replication::hash_ring::HashRing;
use redis_sim::replication::lattice::ReplicaId;
use std::sync::{Arc, RwLock};

/// from_config in an n-node cluster (ids 1..=n, peers listed in id order without self): the ids given
/// to the peers are exactly the other members
pub fn from_config_ids(n: u64) {
    let me = vs::u64();
    vs::assume(me >= 1 && me <= n);
    let mut peers = Vec::new();
    let mut i = 1u64;
    while i <= n { if i != me { peers.push(if i == 1 { "h1:1".to_string() } else if i == 2 { "h2:1".to_string() } else if i == 3 { "h3:1".to_string() } else if i == 4 { "h4:1".to_string() } else { "h5:1".to_string() }); } i += 1; }
    let mut cfg = ReplicationConfig::default();
    cfg.enabled = true;
    cfg.replica_id = me;
    cfg.peers = peers;
    let ring = Arc::new(RwLock::new(HashRing::new(Vec::new(), 1, 1)));
    let r = GossipRouter::from_config(&cfg, ring);
    vcheck!(r.get_peer_address(ReplicaId(me)).is_none(), "config:a peer is given this node's own id");
    let mut j = 1u64;
    while j <= n {
        if j != me {
            let want: &str = if j == 1 { "h1:1" } else if j == 2 { "h2:1" } else if j == 3 { "h3:1" } else if j == 4 { "h4:1" } else { "h5:1" };
            let got = r.get_peer_address(ReplicaId(j));
            vcheck!(match got { Some(a) => a.as_str() == want, None => false }, "config:peer id does not map to that peer's address");
        }
        j += 1;
    }
    std::mem::forget((r, cfg));
}

pub fn twin() {
    let mut cfg = ReplicationConfig::default();
    cfg.replica_id = 2;
    cfg.peers = vec!["h1:1".to_string()];
    let ring = Arc::new(RwLock::new(HashRing::new(Vec::new(), 1, 1)));
    let r = GossipRouter::from_config(&cfg, ring);
    vcheck!(r.get_peer_address(ReplicaId(1)).is_none(), "twin:reachable");
    std::mem::forget((r, cfg));
}
