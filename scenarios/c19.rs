//! C19 — placement is a function of membership; selective gossip reaches every owner.
use crate::vs;
use redis_sim::replication::config::ReplicationConfig;
use redis_sim::replication::gossip_router::GossipRouter;
use redis_sim::replication::hash_ring::HashRing;
use redis_sim::replication::lattice::ReplicaId;
use std::sync::{Arc, RwLock};

/// from_config in an n-node cluster (ids 1..=n, peers listed in id order without self): the ids given
/// to the peers are exactly the other members
pub fn from_config_ids(n: u64) {
    let me = vs::u64();
    vs::assume(me >= 1 && me <= n);
    // the peer list is the same for every node: n-1 addresses "a","b",... = the other members in id order
    let mut cfg = ReplicationConfig::default();
    cfg.enabled = true;
    cfg.replica_id = me;
    cfg.peers = if n == 3 { vec!["a".to_string(), "b".to_string()] } else { vec!["a".to_string(), "b".to_string(), "c".to_string(), "d".to_string()] };
    let ring = Arc::new(RwLock::new(HashRing::new(Vec::new(), 1, 1)));
    let r = GossipRouter::from_config(&cfg, ring);
    vcheck!(r.get_peer_address(ReplicaId(me)).is_none(), "config:a peer is given this node's own id");
    let mut j = 1u64;
    let mut all = true;
    while j <= n {
        if j != me {
            let idx = if j < me { j - 1 } else { j - 2 };
            let ok = match r.get_peer_address(ReplicaId(j)) { Some(a) => a.as_bytes().len() == 1 && a.as_bytes()[0] == b'a' + idx as u8, None => false };
            if !ok { all = false; }
        }
        j += 1;
    }
    vcheck!(all, "config:a member's id does not map to that member's address");
    std::mem::forget((r, cfg));
}

pub fn twin() {
    let mut cfg = ReplicationConfig::default();
    cfg.replica_id = 2;
    cfg.peers = vec!["h1:1".to_string()];
    let ring = Arc::new(RwLock::new(HashRing::new(Vec::new(), 1, 1)));
    let r = GossipRouter::from_config(&cfg, ring);
    let got = r.get_peer_address(ReplicaId(1)).is_some();
    vcheck!(!got, "twin:reachable");
    std::mem::forget((r, cfg));
}

// ---------------------------------------------------------------------------------------------
// hash ring lookups: the ring is built from a concrete, already sorted list of virtual-node positions
// (HashRing::verif_from_parts - what add_node leaves behind; hashing and sorting are bypassed), the key's
// position is an arbitrary u64 (HashRing::hash_key stubbed), rf is symbolic. The real get_replicas /
// get_gossip_targets / remove_node are compared with a reference walk written here.
// Natively the rings are built by the real HashRing::new in different join orders and swept over real keys.
// ---------------------------------------------------------------------------------------------
use redis_sim::replication::hash_ring::VirtualNode;

/// (position, node) sorted by position. Layouts 0-2: 3 members x 2 virtual nodes; layout 3: 2 members x 2 virtual
/// nodes (adjacent virtual nodes of one member must be skipped); layout 4: 3 members x 1 virtual node (wrap-around).
const LAY: [&[(u64, u64)]; 5] = [
    &[(100, 1), (200, 2), (300, 3), (5000, 1), (6000, 2), (7000, 3)],
    &[(0, 3), (10, 1), (20, 1), (30, 2), (40, 3), (18446744073709551615, 2)],   // adjacent vnodes of one node; positions 0 and u64::MAX
    &[(100, 1), (200, 2), (300, 3), (6000, 3), (8000, 2), (9000, 1)],
    &[(10, 1), (20, 1), (30, 2), (18446744073709551615, 2)],
    &[(0, 2), (4000, 3), (9000, 1)],
];
const MEMBERS: [usize; 5] = [3, 3, 3, 2, 3];

fn build(layout: usize, order: [u64; 3], rf: usize) -> HashRing {
    let lay = LAY[layout];
    let mut ring = Vec::with_capacity(6);
    let mut seen = [0u32; 4];
    let mut i = 0;
    while i < lay.len() {
        let (p, n) = lay[i];
        ring.push((p, VirtualNode::new(ReplicaId(n), seen[n as usize])));
        seen[n as usize] += 1;
        i += 1;
    }
    let mut nodes = Vec::with_capacity(3);
    let mut j = 0;
    while j < 3 { if order[j] as usize <= MEMBERS[layout] { nodes.push(ReplicaId(order[j])); } j += 1; }
    let vn = if layout == 4 { 1 } else { 2 };
    HashRing::verif_from_parts(ring, nodes, vn, rf)
}
/// reference walk for a CONCRETE start index: clockwise from `start`, distinct physical nodes, at most `want`
fn walk(layout: usize, start: usize, want: usize, skip: u64) -> ([u64; 3], usize) {
    let lay = LAY[layout];
    let len = lay.len();
    let mut out = [0u64; 3];
    let mut n = 0;
    let mut k = 0;
    while k < len && n < want {
        let node = lay[(start + k) % len].1;
        if node != skip && !(n > 0 && out[0] == node) && !(n > 1 && out[1] == node) { out[n] = node; n += 1; }
        k += 1;
    }
    (out, n)
}
/// does `list` equal the reference for key position `pos`? The start index (first virtual node at or after `pos`,
/// wrapping to 0) is selected by comparisons only; every walk is computed for a concrete start, so the oracle contains
/// no symbolic indexing (a first version indexed the layout table with a symbolic start: out of memory in CBMC).
fn matches_reference(list: &[ReplicaId], layout: usize, pos: u64, want: usize, skip: u64) -> bool {
    let lay = LAY[layout];
    let len = lay.len();
    let mut ok = false;
    let mut s = 0;
    while s < len {
        // start == s  <=>  lay[s] is the first position >= pos; start == 0 also when pos is beyond the last position
        let first_ge = lay[s].0 >= pos && (s == 0 || lay[s - 1].0 < pos);
        let wraps = s == 0 && lay[len - 1].0 < pos;
        if first_ge || wraps {
            let exp = walk(layout, s, want, skip);
            if list.len() == exp.1
                && (exp.1 < 1 || list[0].0 == exp.0[0])
                && (exp.1 < 2 || list[1].0 == exp.0[1])
                && (exp.1 < 3 || list[2].0 == exp.0[2]) { ok = true; }
        }
        s += 1;
    }
    ok
}
fn same(a: &[ReplicaId], b: &[ReplicaId]) -> bool { if a.len() != b.len() { return false; } let mut i = 0; while i < a.len() { if a[i] != b[i] { return false; } i += 1; } true }
fn contains(a: &[ReplicaId], x: ReplicaId) -> bool { let mut i = 0; while i < a.len() { if a[i] == x { return true; } i += 1; } false }

/// what: 0 = lookup vs reference and join-order independence, 1 = gossip targets, 2 = removal of one member
pub fn ring(layout: usize, what: u8, rf: usize) {
    let pos = vs::u64();
    crate::vs::ring_set(layout, pos);
    if vs::NATIVE { return ring_native(rf, what, MEMBERS[layout]); }
    let members = MEMBERS[layout];
    let want = if rf < members { rf } else { members };
    let r1 = build(layout, [1, 2, 3], rf);
    match what {
        0 => {
            let r2 = build(layout, [3, 1, 2], rf);
            let (a, b) = (r1.get_replicas("k"), r2.get_replicas("k"));
            vcheck!(matches_reference(&a, layout, pos, want, 0), "ring:replica list is not the min(rf, n) distinct members clockwise from the key");
            vcheck!(same(&a, &b), "ring:replica list depends on the order in which members joined");
            vcover!(rf >= 3, "replication factor covers the whole cluster");
            std::mem::forget((a, b, r2));
        }
        1 => {
            let sender = vs::u64();
            vs::assume(sender >= 1 && sender <= members as u64);
            let a = r1.get_replicas("k");
            let g = r1.get_gossip_targets("k", ReplicaId(sender));
            let mut ok = !contains(&g, ReplicaId(sender));
            let mut i = 0;
            while i < a.len() { if a[i] != ReplicaId(sender) && !contains(&g, a[i]) { ok = false; } i += 1; }
            let mut j = 0;
            while j < g.len() { if !contains(&a, g[j]) { ok = false; } j += 1; }
            vcheck!(ok, "ring:selective gossip targets are not exactly the replicas other than the sender");
            std::mem::forget((a, g));
        }
        _ => {
            let gone = vs::u64();
            vs::assume(gone >= 1 && gone <= members as u64);
            let a = r1.get_replicas("k");
            let mut r3 = r1.clone();
            r3.remove_node(ReplicaId(gone));
            let c = r3.get_replicas("k");
            vcheck!(matches_reference(&c, layout, pos, if rf < members - 1 { rf } else { members - 1 }, gone), "ring:after a removal the list is not the remaining members clockwise from the key");
            vcheck!(contains(&a, ReplicaId(gone)) || same(&a, &c), "ring:removing a node changed the placement of a key it did not hold");
            std::mem::forget((a, c, r3));
        }
    }
    std::mem::forget(r1);
}

/// native counterpart: real HashRing::new (real hashing, real sort) in two join orders, 4000 real keys
fn ring_native(rf: usize, what: u8, members: usize) {
    let (m1, m2) = if members == 2 { (vec![ReplicaId(1), ReplicaId(2)], vec![ReplicaId(2), ReplicaId(1)]) } else { (vec![ReplicaId(1), ReplicaId(2), ReplicaId(3)], vec![ReplicaId(3), ReplicaId(1), ReplicaId(2)]) };
    let r1 = HashRing::new(m1, 2, rf);
    let r2 = HashRing::new(m2, 2, rf);
    let want = if rf < members { rf } else { members };
    let (mut wf, mut ord, mut gos, mut rem_ok) = (true, true, true, true);
    let mut i = 0;
    while i < 4000 {
        let key = format!("key:{}", i);
        let a = r1.get_replicas(&key);
        let b = r2.get_replicas(&key);
        if a.len() != want || (a.len() > 1 && a[0] == a[1]) || (a.len() > 2 && (a[0] == a[2] || a[1] == a[2])) { wf = false; }
        if !same(&a, &b) { ord = false; }
        // the list for rf must extend the list for rf = 1 (same primary): catches lists that ignore the key
        let p = r1.get_replicas_with_rf(&key, 1);
        if p.len() != 1 || p[0] != a[0] { wf = false; }
        for sender in 1..=members as u64 {
            let g = r1.get_gossip_targets(&key, ReplicaId(sender));
            if contains(&g, ReplicaId(sender)) { gos = false; }
            for x in &a { if *x != ReplicaId(sender) && !contains(&g, *x) { gos = false; } }
            for x in &g { if !contains(&a, *x) { gos = false; } }
        }
        for gone in 1..=members as u64 {
            let mut r3 = r1.clone();
            r3.remove_node(ReplicaId(gone));
            let c = r3.get_replicas(&key);
            if contains(&c, ReplicaId(gone)) || !(contains(&a, ReplicaId(gone)) || same(&a, &c)) { rem_ok = false; }
        }
        i += 1;
    }
    match what {
        0 => { vcheck!(wf, "ring:replica list is not the min(rf, n) distinct members clockwise from the key"); vcheck!(ord, "ring:replica list depends on the order in which members joined"); }
        1 => { vcheck!(gos, "ring:selective gossip targets are not exactly the replicas other than the sender"); }
        _ => { vcheck!(rem_ok, "ring:after a removal the list is not the remaining members clockwise from the key"); vcheck!(rem_ok, "ring:removing a node changed the placement of a key it did not hold"); }
    }
}
