//! C03 — every key has one home: the two routing functions agree, and a command's keys share the
//! home of the key it is routed by.
use crate::vs;
use redis_sim::production::{verif_hash_key, verif_hash_key_bytes};
use redis_sim::redis::{Command, SDS};

/// key = `len` symbolic ASCII bytes; shard count concrete per instance.
/// Under Kani the hasher is the transparent byte-stream model (equal index <=> equal stream fed to the
/// hasher, modulo n); natively the real SipHash runs, and because one concrete key can agree by chance
/// (probability 1/n) the native replay also sweeps all 1-byte keys for the same role.
pub fn routing_agree(len: usize, n: usize) {
    let mut b = [0u8; 4];
    let mut i = 0;
    while i < len { b[i] = vs::u8(); vs::assume(b[i] < 0x80); i += 1; }
    let key = &b[..len];
    let s = match std::str::from_utf8(key) { Ok(s) => s, Err(_) => return };
    crate::vs::streams_reset();
    let a = verif_hash_key(s, n); // hasher #0
    let c = verif_hash_key_bytes(key, n); // hasher #1
    // Kani: the exact question "were the same bytes fed to the hasher?" (independent of the model hash);
    // natively: the real SipHash indices, swept over all 1-byte keys because one key can agree by chance
    let mut agree = if vs::NATIVE || n == 1 { a == c } else { vs::streams_equal(0, 1) && a == c };
    if vs::NATIVE && agree {
        let mut x = 0u8;
        while x < 0x80 {
            let kb = [x];
            if let Ok(ks) = std::str::from_utf8(&kb) {
                if verif_hash_key(ks, n) != verif_hash_key_bytes(&kb, n) { agree = false; }
            }
            x += 1;
        }
    }
    vcheck!(a < n && c < n, "route:index within shard count");
    vcheck!(agree, "route:fast path (bytes) and generic path (str) send one key to different shards");
}

fn k1(b: u8) -> String {
    let mut s = String::with_capacity(1);
    s.push((b & 0x7f) as char);
    s
}
fn sds1(b: u8) -> SDS { let mut d = [0u8; 23]; d[0] = b; SDS::Inline { len: 1, data: d } }

/// two-key commands that ShardedActorState::execute sends whole to the shard of get_primary_key():
/// every key of the command must live on that shard. which: 0 RPOPLPUSH, 1 LMOVE, 2 RENAME, 3 RENAMENX,
/// 4 MSETNX (2 pairs), 5 SORT..STORE
pub fn single_home(which: u8, n: usize) {
    let (a, b) = (vs::u8(), vs::u8());
    vs::assume(a < 0x80 && b < 0x80 && a != b);
    let cmd = match which {
        0 => Command::RPopLPush(k1(a), k1(b)),
        1 => Command::LMove { source: k1(a), dest: k1(b), wherefrom: "LEFT".to_string(), whereto: "RIGHT".to_string() },
        2 => Command::Rename(k1(a), k1(b)),
        3 => Command::RenameNx(k1(a), k1(b)),
        4 => Command::MSetNx(vec![(k1(a), sds1(1)), (k1(b), sds1(2))]),
        _ => Command::Sort { key: k1(a), store: Some(k1(b)) },
    };
    let route = cmd.get_primary_key().map(|k| verif_hash_key(k, n));
    let keys = cmd.get_keys();
    vcheck!(route.is_some(), "home:command has a routing key");
    vcheck!(keys.len() == 2, "home:both keys are reported");
    let mut all_home = true;
    let mut i = 0;
    while i < keys.len() {
        if Some(verif_hash_key(&keys[i], n)) != route { all_home = false; }
        i += 1;
    }
    if vs::NATIVE && all_home {
        // chance agreement under the real hash: sweep second keys
        let mut x = 0u8;
        while x < 0x80 { if x != a && Some(verif_hash_key(&k1(x), n)) != route { all_home = false; } x += 1; }
    }
    vcheck!(all_home, "home:a key of the command lives on another shard than the one executing it");
    std::mem::forget((cmd, keys));
}

/// single-key commands: the routing key is the command's only key
pub fn primary_is_only_key(which: u8) {
    let a = vs::u8();
    vs::assume(a < 0x80);
    let cmd = match which {
        0 => Command::Get(k1(a)),
        1 => Command::set(k1(a), sds1(1)),
        2 => Command::Incr(k1(a)),
        3 => Command::LPush(k1(a), vec![sds1(1)]),
        4 => Command::HGet(k1(a), sds1(1)),
        5 => Command::SAdd(k1(a), vec![sds1(1)]),
        6 => Command::ZCard(k1(a)),
        7 => Command::Expire { key: k1(a), seconds: 1, nx: false, xx: false, gt: false, lt: false },
        8 => Command::Del(vec![k1(a)]),
        _ => Command::Exists(vec![k1(a)]),
    };
    let keys = cmd.get_keys();
    let p = cmd.get_primary_key();
    vcheck!(keys.len() == 1 && p == Some(keys[0].as_str()) && keys[0].as_bytes()[0] == a, "home:routing key differs from the command's key");
    std::mem::forget((cmd, keys));
}

pub fn twin() {
    let a = vs::u8();
    vs::assume(a < 0x80);
    let kb = [a];
    let s = std::str::from_utf8(&kb).unwrap();
    let x = verif_hash_key(s, 16);
    let y = verif_hash_key_bytes(&kb, 16);
    vcheck!(x >= 16 || y >= 16, "twin:reachable");
}
