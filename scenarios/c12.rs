//! C12 — streaming persistence is crash-consistent at every step and loses nothing confirmed.
//! The REAL `StreamingPersistence::flush` / `WriteBuffer::flush` (async fns, polled inline with a no-op
//! waker) run over a harness object store whose every operation has a SYMBOLIC outcome
//! {Ok, Err, (put) partial object left behind then Err}. A crash between two store operations leaves exactly
//! what a fault at the next operation leaves (flush issues no further operation after an error - asserted),
//! so the fault schedule also enumerates the crash points. The store keeps ghost bookkeeping: an operation
//! log and, per object class, whether a complete object is present.
//! Object classes are recognised by CONTENT (a manifest is JSON and starts with '{', a segment starts with
//! the segment magic) because `format!` is stubbed under Kani and keys are therefore not distinguishable.
use crate::vs;
use redis_sim::redis::SDS;
use redis_sim::replication::lattice::{LamportClock, ReplicaId};
use redis_sim::replication::state::{ReplicatedValue, ReplicationDelta};
use redis_sim::streaming::{
    ListResult, ObjectMeta, ObjectStore, StreamingClock, StreamingPersistence, StreamingTimestamp, WriteBuffer, WriteBufferConfig,
};
use std::future::Future;
use std::io::{Error as IoError, ErrorKind, Result as IoResult};
use std::pin::Pin;
use std::sync::Arc;
use std::task::{Context, Poll, RawWaker, RawWakerVTable, Waker};

// ------------------------------------------------------------------------------------------- polling
fn raw_waker() -> RawWaker {
    fn no(_: *const ()) {}
    fn cl(_: *const ()) -> RawWaker { raw_waker() }
    static VT: RawWakerVTable = RawWakerVTable::new(cl, no, no, no);
    RawWaker::new(std::ptr::null(), &VT)
}
/// the futures under test never suspend (the model store answers at once): one poll suffices; a Pending
/// would be a harness error and is reported as such
pub fn run<F: Future>(f: F) -> Option<F::Output> {
    let w = unsafe { Waker::from_raw(raw_waker()) };
    let mut cx = Context::from_waker(&w);
    let mut f = Box::pin(f);
    let r = match f.as_mut().poll(&mut cx) { Poll::Ready(v) => Some(v), Poll::Pending => None };
    std::mem::forget(f);
    r
}

// ------------------------------------------------------------------------------------------- model store
pub const OP_PUT_SEG: u8 = 1;
pub const OP_PUT_MANIFEST_TMP: u8 = 2;
pub const OP_RENAME: u8 = 3;
pub const OP_GET: u8 = 4;
pub const OP_DELETE: u8 = 5;
pub const OP_OTHER: u8 = 6;

pub struct Ghost {
    pub n_ops: usize,
    pub ops: [(u8, bool); 12], // (kind, succeeded)
    pub seg_complete: u8,      // complete segment objects present
    pub seg_partial: u8,       // torn segment objects present
    pub tmp_complete: bool,    // a complete manifest temp object is present
    pub tmp_partial: bool,
    pub manifest_commits: u8,  // successful renames temp -> manifest
    pub manifest_torn: bool,   // the live manifest object was replaced by a torn or missing-temp rename
    pub segs_at_commit: u8,    // complete segments present when the live manifest was last replaced
    pub failed: bool,          // some operation failed
    pub ops_after_failure: u8, // mutating operations issued after the first failure
    pub faults_on: bool,
}
pub static mut G: Ghost = Ghost {
    n_ops: 0, ops: [(0, false); 12], seg_complete: 0, seg_partial: 0, tmp_complete: false, tmp_partial: false,
    manifest_commits: 0, manifest_torn: false, segs_at_commit: 0, failed: false, ops_after_failure: 0, faults_on: false,
};
fn g() -> &'static mut Ghost { unsafe { &mut *std::ptr::addr_of_mut!(G) } }
pub fn ghost_reset(faults_on: bool) {
    let x = g();
    x.n_ops = 0; x.ops = [(0, false); 12]; x.seg_complete = 0; x.seg_partial = 0; x.tmp_complete = false; x.tmp_partial = false;
    x.manifest_commits = 0; x.manifest_torn = false; x.segs_at_commit = 0; x.failed = false; x.ops_after_failure = 0; x.faults_on = faults_on;
}
fn record(kind: u8, ok: bool) {
    let x = g();
    if x.failed && kind != OP_GET { x.ops_after_failure += 1; }
    if x.n_ops < 12 { x.ops[x.n_ops] = (kind, ok); }
    x.n_ops += 1;
    if !ok { x.failed = true; }
}
/// symbolic outcome of one store operation: 0 ok, 1 error without effect, 2 error after a partial effect
fn outcome() -> u8 {
    if !g().faults_on { return 0; }
    let o = vs::u8();
    vs::assume(o <= 2);
    o
}
fn io_err() -> IoError { IoError::from(ErrorKind::Other) }

#[derive(Clone)]
pub struct ModelStore;
type Fut<'a, T> = Pin<Box<dyn Future<Output = IoResult<T>> + Send + 'a>>;
impl ObjectStore for ModelStore {
    fn put<'a>(&'a self, _key: &'a str, data: &'a [u8]) -> Fut<'a, ()> {
        let is_manifest = !data.is_empty() && data[0] == b'{';
        let o = outcome();
        let x = g();
        if is_manifest {
            record(OP_PUT_MANIFEST_TMP, o == 0);
            if o == 0 { x.tmp_complete = true; x.tmp_partial = false; } else if o == 2 { x.tmp_complete = false; x.tmp_partial = true; }
        } else {
            record(OP_PUT_SEG, o == 0);
            if o == 0 { x.seg_complete += 1; } else if o == 2 { x.seg_partial += 1; }
        }
        Box::pin(std::future::ready(if o == 0 { Ok(()) } else { Err(io_err()) }))
    }
    fn get<'a>(&'a self, _key: &'a str) -> Fut<'a, Vec<u8>> {
        // only the manifest is read by the code under test; it is reported absent (load_or_create then keeps
        // going with a fresh manifest) or the read fails
        let o = outcome();
        record(OP_GET, o == 0);
        Box::pin(std::future::ready(if o == 0 { Err(IoError::from(ErrorKind::NotFound)) } else { Err(io_err()) }))
    }
    fn exists<'a>(&'a self, _key: &'a str) -> Fut<'a, bool> { record(OP_OTHER, true); Box::pin(std::future::ready(Ok(false))) }
    fn delete<'a>(&'a self, _key: &'a str) -> Fut<'a, ()> {
        let o = outcome();
        record(OP_DELETE, o == 0);
        Box::pin(std::future::ready(if o == 0 { Ok(()) } else { Err(io_err()) }))
    }
    fn list<'a>(&'a self, _p: &'a str, _c: Option<&'a str>) -> Fut<'a, ListResult> { record(OP_OTHER, true); Box::pin(std::future::ready(Ok(ListResult::default()))) }
    fn rename<'a>(&'a self, _from: &'a str, _to: &'a str) -> Fut<'a, ()> {
        let o = outcome();
        let o = if o == 2 { 1 } else { o }; // rename is atomic: it happens or it does not
        record(OP_RENAME, o == 0);
        let x = g();
        if o == 0 {
            if !x.tmp_complete { x.manifest_torn = true; }
            x.manifest_commits += 1;
            x.segs_at_commit = x.seg_complete;
            x.tmp_complete = false; x.tmp_partial = false;
        }
        Box::pin(std::future::ready(if o == 0 { Ok(()) } else { Err(io_err()) }))
    }
    fn head<'a>(&'a self, _key: &'a str) -> Fut<'a, ObjectMeta> { record(OP_OTHER, true); Box::pin(std::future::ready(Err(IoError::from(ErrorKind::NotFound)))) }
}

#[derive(Clone)]
pub struct FixedClock;
impl StreamingClock for FixedClock { fn now(&self) -> StreamingTimestamp { StreamingTimestamp(1000) } }

fn delta(k: &str, b: u8, t: u64) -> ReplicationDelta {
    let mut d = [0u8; 23];
    d[0] = b;
    let v = ReplicatedValue::with_value(SDS::Inline { len: 1, data: d }, LamportClock { time: t, replica_id: ReplicaId(1) });
    ReplicationDelta::new(k.to_string(), v, ReplicaId(1))
}
fn cfg() -> WriteBufferConfig {
    WriteBufferConfig { flush_interval: std::time::Duration::from_millis(50), max_size_bytes: 1 << 20, max_deltas: 100, backpressure_threshold_bytes: 1 << 22, compression_enabled: false }
}

/// index of the first op of `kind` that succeeded, if any
fn first_ok(kind: u8) -> Option<usize> {
    let x = g();
    let mut i = 0;
    while i < 12 && i < x.n_ops { if x.ops[i].0 == kind && x.ops[i].1 { return Some(i); } i += 1; }
    None
}

/// StreamingPersistence::flush with `n` buffered updates under every fault schedule.
pub fn persistence_flush(n: usize) {
    ghost_reset(false);
    let p = run(StreamingPersistence::with_clock(Arc::new(ModelStore), "p".to_string(), 1, cfg(), FixedClock));
    let mut p = match p { Some(Ok(p)) => p, _ => { vcheck!(false, "harness:constructor did not complete"); return; } };
    let mut i = 0;
    while i < n { let _ = p.push(delta("k", b'a' + i as u8, 5 + i as u64)); i += 1; }
    let before = p.pending_count();
    ghost_reset(true);
    let r = run(p.flush());
    let x = g();
    match r {
        None => { vcheck!(false, "harness:flush suspended on the model store"); }
        Some(res) => {
            let ok = res.is_ok();
            vcheck!(!(ok && x.failed), "flush:reports success although a store operation failed");
            vcheck!(!(!ok && !x.failed), "flush:reports failure although every store operation succeeded");
            vcheck!(x.ops_after_failure == 0, "flush:keeps writing to the store after a failed operation (crash points are not fault points)");
            // the manifest is replaced only by a complete temp object, and only after the segment it names is complete
            vcheck!(!x.manifest_torn, "crash:live manifest replaced by a missing or partially written temp object");
            vcheck!(x.manifest_commits == 0 || x.segs_at_commit >= 1, "crash:manifest references a segment that is missing or partially written");
            if ok {
                vcheck!(x.manifest_commits == 1 && x.seg_complete == 1, "flush:success without exactly one complete segment and one manifest swap");
                vcheck!(p.pending_count() == 0, "flush:success leaves updates in the buffer");
                let order_ok = match (first_ok(OP_PUT_SEG), first_ok(OP_PUT_MANIFEST_TMP), first_ok(OP_RENAME)) { (Some(a), Some(b), Some(c)) => a < b && b < c, _ => false };
                vcheck!(order_ok, "flush:segment, manifest temp, rename are not written in this order");
                vcheck!(p.manifest().segments.len() == 1, "flush:cached manifest does not list the new segment");
            } else {
                // confirmed = none; but nothing accepted may vanish while the process keeps running
                vcheck!(p.pending_count() == before, "flush:a failed flush silently discards buffered updates");
            }
            vcover!(ok, "flush succeeded");
            vcover!(!ok && x.seg_complete == 1, "failure after the segment was written");
            vcover!(!ok && x.seg_partial == 1, "torn segment");
            std::mem::forget(res);
        }
    }
    std::mem::forget(p);
}

/// WriteBuffer::flush (the delta-sink path): same questions for its single store operation.
pub fn write_buffer_flush(n: usize) {
    ghost_reset(false);
    let wb = WriteBuffer::new(Arc::new(ModelStore), "p".to_string(), cfg());
    let mut i = 0;
    while i < n { let _ = wb.push(delta("k", b'a' + i as u8, 5 + i as u64)); i += 1; }
    let before = wb.pending_count();
    ghost_reset(true);
    let r = run(wb.flush());
    let x = g();
    match r {
        None => { vcheck!(false, "harness:flush suspended on the model store"); }
        Some(res) => {
            let ok = res.is_ok();
            vcheck!(!(ok && x.failed), "flush:reports success although a store operation failed");
            vcheck!(!(!ok && !x.failed), "flush:reports failure although every store operation succeeded");
            vcheck!(x.ops_after_failure == 0, "flush:keeps writing to the store after a failed operation (crash points are not fault points)");
            if ok {
                vcheck!(x.seg_complete == 1 && wb.pending_count() == 0, "flush:success without exactly one complete segment");
            } else {
                vcheck!(wb.pending_count() == before, "flush:a failed flush silently discards buffered updates");
            }
            vcover!(ok, "flush succeeded");
            std::mem::forget(res);
        }
    }
    std::mem::forget(wb);
}

pub fn twin() {
    ghost_reset(false);
    let p = run(StreamingPersistence::with_clock(Arc::new(ModelStore), "p".to_string(), 1, cfg(), FixedClock));
    let mut p = match p { Some(Ok(p)) => p, _ => return };
    let _ = p.push(delta("k", b'a', 5));
    let r = run(p.flush());
    vcheck!(!matches!(r, Some(Ok(_))), "twin:reachable");
    std::mem::forget((r, p));
}
