//! C14 — stored updates: damage to an encoded segment is detected, not decoded into different data; what the
//! writers of the current tree produce, the readers of the current tree return unchanged.
//! The images are produced natively by the REAL SegmentWriter / WalEntry::from_delta of /repo at check time
//! (/verif/replay/src/bin/vfixtures.rs -> /verif/.build/gen/fixtures.rs); the solver runs the readers.
use crate::vs;
use redis_sim::streaming::{SegmentReader, WalEntry};

include!("/verif/.build/gen/fixtures.rs");

pub const SEG_LEN: usize = SEGMENT_IMAGE.len();
pub const HEADER: usize = 40;
pub const FOOTER: usize = 24;

fn delta_is_original(d: &redis_sim::replication::state::ReplicationDelta) -> bool {
    d.key.as_bytes() == b"k" && d.value.timestamp.time == 7 && d.value.timestamp.replica_id.0 == 2 && d.source_replica.0 == 2
        && d.value.expiry_ms == Some(99) && !d.value.is_tombstone()
        && d.value.get().map(|s| s.as_bytes().len() == 1 && s.as_bytes()[0] == b'v').unwrap_or(false)
}

/// one byte of the image at a symbolic position in [lo, hi) is XOR-ed with a symbolic non-zero mask:
/// the reader reports an error, or everything it returns is what was written
pub fn segment_damage(lo: usize, hi: usize) {
    let mut img = SEGMENT_IMAGE;
    let pos = vs::usize();
    vs::assume(pos >= lo && pos < hi);
    let m = vs::u8();
    vs::assume(m != 0);
    img[pos] ^= m;
    let r = SegmentReader::open(&img);
    if let Ok(rd) = &r {
        if rd.validate().is_ok() {
            let h = rd.header();
            vcheck!(h.record_count == 1 && h.min_timestamp == 7 && h.max_timestamp == 7 && h.flags == 0, "segment:damaged header field accepted");
            match rd.read_all() {
                Ok(ds) => {
                    vcheck!(ds.len() == 1, "segment:damaged image yields a different number of updates");
                    if ds.len() == 1 { vcheck!(delta_is_original(&ds[0]), "segment:damaged image decoded into different data"); }
                    std::mem::forget(ds);
                }
                Err(e) => { std::mem::forget(e); }
            }
            // accepted: the damaged byte must be one the format does not use (header padding, footer size fields)
            let unused = (pos >= 30 && pos < HEADER) || (pos >= SEG_LEN - FOOTER + 4 && pos < SEG_LEN - 4);
            vcheck!(unused, "segment:damage inside a checked region passes validation");
            vcover!(true, "some damage is accepted (unused bytes)");
        }
    }
    std::mem::forget(r);
}

/// the intact images of the current tree's writers read back as what was written
pub fn roundtrip() {
    let img = SEGMENT_IMAGE;
    let r = SegmentReader::open(&img);
    vcheck!(r.is_ok(), "segment:intact image rejected");
    if let Ok(rd) = &r {
        vcheck!(rd.validate().is_ok(), "segment:intact image fails validation");
        match rd.read_all() {
            Ok(ds) => { vcheck!(ds.len() == 1 && delta_is_original(&ds[0]), "segment:update does not round-trip"); std::mem::forget(ds); }
            Err(e) => { vcheck!(false, "segment:intact image cannot be read"); std::mem::forget(e); }
        }
    }
    let w = WalEntry::decode(&WAL_ENTRY_IMAGE);
    match &w {
        Some((e, used)) => {
            vcheck!(*used == WAL_ENTRY_IMAGE.len() && e.timestamp == 7, "wal:entry image does not decode to itself");
            match e.to_delta() {
                Ok(d) => { vcheck!(delta_is_original(&d), "wal:update does not round-trip"); std::mem::forget(d); }
                Err(x) => { vcheck!(false, "wal:payload cannot be deserialised"); std::mem::forget(x); }
            }
        }
        None => { vcheck!(false, "wal:intact entry rejected"); }
    }
    std::mem::forget((r, w));
}

pub fn twin() {
    let img = SEGMENT_IMAGE;
    let r = SegmentReader::open(&img);
    vcheck!(r.is_err(), "twin:reachable");
    std::mem::forget(r);
}
