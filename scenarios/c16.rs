//! C16 — the two RESP command parsers agree: same frame => same Command or the same error text.
//! One instance = one concrete command name + concrete arity + concrete option keywords; argument
//! bytes are symbolic (1 byte unless stated), numeric arguments are symbolic digit strings.
use crate::vs;
use bytes::Bytes;
use redis_sim::redis::{Command, RespValue, RespValueZeroCopy};

#[derive(Clone, Copy)]
pub enum A {
    /// literal bytes (option keyword, sub-command)
    L(&'static [u8]),
    /// n symbolic bytes
    S(usize),
    /// n symbolic ASCII digits (the length of every argument is concrete: a symbolic sign would make it symbolic)
    D(usize),
    /// '-' followed by n symbolic ASCII digits
    N(usize),
    /// n symbolic ASCII digits, no sign
    G(usize),
    /// 1 symbolic lower-case ASCII letter
    Lc,
    /// keyword with symbolic letter case: every ASCII letter of the literal is upper or lower case (one solver bit each)
    K(&'static [u8]),
    /// nil bulk string
    Nil,
    /// RESP integer (symbolic)
    Int,
}

fn arg_bytes(a: A) -> Option<Vec<u8>> {
    match a {
        A::L(l) => Some(l.to_vec()),
        A::S(n) => { let mut v = Vec::with_capacity(n); let mut i = 0; while i < n { v.push(vs::u8()); i += 1; } Some(v) }
        A::D(n) => { let mut v = Vec::with_capacity(n); let mut i = 0; while i < n { let d = vs::u8(); vs::assume(d >= b'0' && d <= b'9'); v.push(d); i += 1; } Some(v) }
        A::N(n) => { let mut v = Vec::with_capacity(n + 1); v.push(b'-'); let mut i = 0; while i < n { let d = vs::u8(); vs::assume(d >= b'0' && d <= b'9'); v.push(d); i += 1; } Some(v) }
        A::G(n) => { let mut v = Vec::with_capacity(n); let mut i = 0; while i < n { let d = vs::u8(); vs::assume(d >= b'0' && d <= b'9'); v.push(d); i += 1; } Some(v) }
        A::K(l) => {
            let mut v = Vec::with_capacity(l.len());
            macro_rules! ch { ($($i:literal)*) => { $( if l.len() > $i { let c = l[$i]; let low = vs::bool(); v.push(if low && c.is_ascii_alphabetic() { c | 0x20 } else { c }); } )* } }
            ch!(0 1 2 3 4 5 6 7 8 9 10 11);
            Some(v)
        }
        A::Lc => { let d = vs::u8(); vs::assume(d >= b'a' && d <= b'z'); Some(vec![d]) }
        _ => None,
    }
}

/// build the same frame for both parsers and compare outcomes
pub fn diff(name: &'static [u8], args: &[A]) {
    let mut e1: Vec<RespValue> = Vec::with_capacity(args.len() + 1);
    let mut e2: Vec<RespValueZeroCopy> = Vec::with_capacity(args.len() + 1);
    e1.push(RespValue::BulkString(Some(name.to_vec())));
    e2.push(RespValueZeroCopy::BulkString(Some(Bytes::from_static(name))));
    let mut i = 0;
    while i < args.len() {
        match args[i] {
            A::Nil => { e1.push(RespValue::BulkString(None)); e2.push(RespValueZeroCopy::BulkString(None)); }
            A::Int => { let n = vs::i64(); e1.push(RespValue::Integer(n)); e2.push(RespValueZeroCopy::Integer(n)); }
            a => {
                let b = arg_bytes(a).unwrap();
                e2.push(RespValueZeroCopy::BulkString(Some(Bytes::copy_from_slice(&b))));
                e1.push(RespValue::BulkString(Some(b)));
            }
        }
        i += 1;
    }
    let f1 = RespValue::Array(Some(e1));
    let f2 = RespValueZeroCopy::Array(Some(e2));
    let r1 = Command::from_resp(&f1);
    let r2 = Command::from_resp_zero_copy(&f2);
    match (&r1, &r2) {
        (Ok(a), Ok(b)) => { vcheck!(a == b, "parsers:same frame parsed into different commands"); }
        (Err(a), Err(b)) => { vcheck!(a.as_bytes() == b.as_bytes(), "parsers:same frame rejected with different error texts"); }
        (Ok(_), Err(_)) => { vcheck!(false, "parsers:frame accepted by the simulation parser only"); }
        (Err(_), Ok(_)) => { vcheck!(false, "parsers:frame accepted by the production parser only"); }
    }
    vcover!(r1.is_ok(), "accepted");
    std::mem::forget((r1, r2, f1, f2));
}

/// one arm of the command-name match of both parsers (S7 extraction under Kani; natively the whole parsers on the
/// full frame), for every arity lo..=hi, every argument = `w` symbolic bytes (any byte values, also non-UTF-8).
/// `f.0` / `f.1` take the complete element vector (name first).
pub fn arm<F1, F2>(name: &'static [u8], lo: usize, hi: usize, w: usize, f: (F1, F2))
where F1: Fn(Vec<RespValue>) -> Result<Command, String>, F2: Fn(Vec<RespValueZeroCopy>) -> Result<Command, String> {
    macro_rules! arity { ($k:literal) => { if lo <= $k && $k <= hi { arm_one(name, $k, w, &f); } } }
    arity!(0); arity!(1); arity!(2); arity!(3); arity!(4); arity!(5); arity!(6);
}
fn arm_one<F1, F2>(name: &'static [u8], k: usize, w: usize, f: &(F1, F2))
where F1: Fn(Vec<RespValue>) -> Result<Command, String>, F2: Fn(Vec<RespValueZeroCopy>) -> Result<Command, String> {
    let mut e1: Vec<RespValue> = Vec::with_capacity(k + 1);
    let mut e2: Vec<RespValueZeroCopy> = Vec::with_capacity(k + 1);
    e1.push(RespValue::BulkString(Some(name.to_vec())));
    e2.push(RespValueZeroCopy::BulkString(Some(Bytes::from_static(name))));
    macro_rules! argn { ($i:literal) => { if k > $i {
        let (b0, b1, b2) = (vs::u8(), vs::u8(), vs::u8());
        let v: Vec<u8> = match w { 0 => Vec::new(), 1 => vec![b0], 2 => vec![b0, b1], _ => vec![b0, b1, b2] };
        e2.push(RespValueZeroCopy::BulkString(Some(Bytes::copy_from_slice(&v))));
        e1.push(RespValue::BulkString(Some(v)));
    } } }
    argn!(0); argn!(1); argn!(2); argn!(3); argn!(4); argn!(5);
    let r1 = (f.0)(e1);
    let r2 = (f.1)(e2);
    match (&r1, &r2) {
        (Ok(a), Ok(b)) => { vcheck!(a == b, "parsers:same frame parsed into different commands"); }
        (Err(a), Err(b)) => { vcheck!(a.as_bytes() == b.as_bytes(), "parsers:same frame rejected with different error texts"); }
        (Ok(_), Err(_)) => { vcheck!(false, "parsers:frame accepted by the simulation parser only"); }
        (Err(_), Ok(_)) => { vcheck!(false, "parsers:frame accepted by the production parser only"); }
    }
    std::mem::forget((r1, r2));
}

pub fn seq(a: &redis_sim::redis::SDS, b: &redis_sim::redis::SDS) -> bool { crate::scenarios::util::sds_eq(a, b) }
pub fn vs1(a: &Vec<String>, b: &Vec<String>) -> bool { a.len() == b.len() && (a.len() < 1 || a[0] == b[0]) && (a.len() < 2 || a[1] == b[1]) && a.len() <= 2 }
pub fn vsds(a: &Vec<redis_sim::redis::SDS>, b: &Vec<redis_sim::redis::SDS>) -> bool { a.len() == b.len() && (a.len() < 1 || seq(&a[0], &b[0])) && (a.len() < 2 || seq(&a[1], &b[1])) && a.len() <= 2 }
/// structural equality of two parsed commands, written out per variant: the derived `==` on the 200-variant enum makes
/// symbolic execution compare under every variant (the discriminant of a value returned through `Result` is no longer
/// a constant for CBMC). Variants not listed compare as different under Kani (a harness that needs one fails on the
/// unchanged tree and gets its variant added); natively the derived `==` is used, so a replay confirms the real thing.
pub fn veq(a: &Command, b: &Command) -> bool {
    if vs::NATIVE { return a == b; }
    use Command::*;
    match (a, b) {
        (Get(x), Get(y)) | (StrLen(x), StrLen(y)) | (Incr(x), Incr(y)) | (Decr(x), Decr(y)) | (TypeOf(x), TypeOf(y)) | (Ttl(x), Ttl(y)) | (Pttl(x), Pttl(y))
        | (Persist(x), Persist(y)) | (LPop(x), LPop(y)) | (RPop(x), RPop(y)) | (LLen(x), LLen(y)) | (SMembers(x), SMembers(y)) | (SCard(x), SCard(y))
        | (HGetAll(x), HGetAll(y)) | (HLen(x), HLen(y)) | (ZCard(x), ZCard(y)) | (Keys(x), Keys(y)) | (GetDel(x), GetDel(y)) | (HKeys(x), HKeys(y)) | (HVals(x), HVals(y)) => x == y,
        (Set { key: k1, value: v1, ex: e1, px: p1, exat: a1, pxat: q1, nx: n1, xx: x1, get: g1, keepttl: t1 },
         Set { key: k2, value: v2, ex: e2, px: p2, exat: a2, pxat: q2, nx: n2, xx: x2, get: g2, keepttl: t2 }) =>
            k1 == k2 && seq(v1, v2) && e1 == e2 && p1 == p2 && a1 == a2 && q1 == q2 && n1 == n2 && x1 == x2 && g1 == g2 && t1 == t2,
        (Append(k1, v1), Append(k2, v2)) | (GetSet(k1, v1), GetSet(k2, v2)) | (SetNx(k1, v1), SetNx(k2, v2)) | (SIsMember(k1, v1), SIsMember(k2, v2))
        | (HGet(k1, v1), HGet(k2, v2)) | (HExists(k1, v1), HExists(k2, v2)) | (ZScore(k1, v1), ZScore(k2, v2)) | (ZRank(k1, v1), ZRank(k2, v2)) => k1 == k2 && seq(v1, v2),
        (IncrBy(k1, n1), IncrBy(k2, n2)) | (DecrBy(k1, n1), DecrBy(k2, n2)) | (ExpireAt(k1, n1), ExpireAt(k2, n2)) | (PExpireAt(k1, n1), PExpireAt(k2, n2)) => k1 == k2 && n1 == n2,
        (Del(x), Del(y)) | (Exists(x), Exists(y)) | (MGet(x), MGet(y)) | (Watch(x), Watch(y)) => vs1(x, y),
        (Expire { key: k1, seconds: s1, nx: n1, xx: x1, gt: g1, lt: l1 }, Expire { key: k2, seconds: s2, nx: n2, xx: x2, gt: g2, lt: l2 }) => k1 == k2 && s1 == s2 && n1 == n2 && x1 == x2 && g1 == g2 && l1 == l2,
        (PExpire { key: k1, milliseconds: s1, nx: n1, xx: x1, gt: g1, lt: l1 }, PExpire { key: k2, milliseconds: s2, nx: n2, xx: x2, gt: g2, lt: l2 }) => k1 == k2 && s1 == s2 && n1 == n2 && x1 == x2 && g1 == g2 && l1 == l2,
        (LPush(k1, v1), LPush(k2, v2)) | (RPush(k1, v1), RPush(k2, v2)) | (SAdd(k1, v1), SAdd(k2, v2)) | (SRem(k1, v1), SRem(k2, v2)) | (HDel(k1, v1), HDel(k2, v2)) | (ZRem(k1, v1), ZRem(k2, v2)) => k1 == k2 && vsds(v1, v2),
        (LIndex(k1, i1), LIndex(k2, i2)) => k1 == k2 && i1 == i2,
        (LRange(k1, a1, b1), LRange(k2, a2, b2)) | (LTrim(k1, a1, b1), LTrim(k2, a2, b2)) | (GetRange(k1, a1, b1), GetRange(k2, a2, b2)) => k1 == k2 && a1 == a2 && b1 == b2,
        (LSet(k1, i1, v1), LSet(k2, i2, v2)) => k1 == k2 && i1 == i2 && seq(v1, v2),
        (SetRange(k1, i1, v1), SetRange(k2, i2, v2)) => k1 == k2 && i1 == i2 && seq(v1, v2),
        (RPopLPush(a1, b1), RPopLPush(a2, b2)) => a1 == a2 && b1 == b2,
        (LMove { source: a1, dest: b1, wherefrom: c1, whereto: d1 }, LMove { source: a2, dest: b2, wherefrom: c2, whereto: d2 }) => a1 == a2 && b1 == b2 && c1 == c2 && d1 == d2,
        (HSet(k1, p1), HSet(k2, p2)) => k1 == k2 && p1.len() == p2.len() && p1.len() == 1 && seq(&p1[0].0, &p2[0].0) && seq(&p1[0].1, &p2[0].1),
        (HIncrBy(k1, f1, n1), HIncrBy(k2, f2, n2)) => k1 == k2 && seq(f1, f2) && n1 == n2,
        (ZRange(k1, a1, b1, w1), ZRange(k2, a2, b2, w2)) | (ZRevRange(k1, a1, b1, w1), ZRevRange(k2, a2, b2, w2)) => k1 == k2 && a1 == a2 && b1 == b2 && w1 == w2,
        (SPop(k1, c1), SPop(k2, c2)) => k1 == k2 && c1 == c2,
        (Select(x), Select(y)) => x == y,
        (Echo(x), Echo(y)) => seq(x, y),
        (Ping(x), Ping(y)) => match (x, y) { (Some(p), Some(q)) => seq(p, q), (None, None) => true, _ => false },
        (Multi, Multi) | (Exec, Exec) | (Discard, Discard) | (Unwatch, Unwatch) | (FlushDb, FlushDb) | (FlushAll, FlushAll) | (DbSize, DbSize) | (Info, Info) | (Time, Time) => true,
        _ => false,
    }
}

/// one arm, one concrete argument shape (literals / symbolic bytes per argument as in `diff`)
pub fn arm_spec<F1, F2, C>(name: &'static [u8], args: &[A], f: (F1, F2), cmp: C)
where F1: Fn(Vec<RespValue>) -> Result<Command, String>, F2: Fn(Vec<RespValueZeroCopy>) -> Result<Command, String>, C: Fn(&Command, &Command) -> bool {
    let mut e1: Vec<RespValue> = Vec::with_capacity(args.len() + 1);
    let mut e2: Vec<RespValueZeroCopy> = Vec::with_capacity(args.len() + 1);
    e1.push(RespValue::BulkString(Some(name.to_vec())));
    e2.push(RespValueZeroCopy::BulkString(Some(Bytes::from_static(name))));
    let mut i = 0;
    while i < args.len() {
        match args[i] {
            A::Nil => { e1.push(RespValue::BulkString(None)); e2.push(RespValueZeroCopy::BulkString(None)); }
            A::Int => { let n = vs::i64(); e1.push(RespValue::Integer(n)); e2.push(RespValueZeroCopy::Integer(n)); }
            a => {
                let b = arg_bytes(a).unwrap();
                e2.push(RespValueZeroCopy::BulkString(Some(Bytes::copy_from_slice(&b))));
                e1.push(RespValue::BulkString(Some(b)));
            }
        }
        i += 1;
    }
    let r1 = (f.0)(e1);
    let r2 = (f.1)(e2);
    match (&r1, &r2) {
        (Ok(a), Ok(b)) => { vcheck!(if vs::NATIVE { a == b } else { cmp(a, b) }, "parsers:same frame parsed into different commands"); }
        (Err(a), Err(b)) => { vcheck!(a.as_bytes() == b.as_bytes(), "parsers:same frame rejected with different error texts"); }
        (Ok(_), Err(_)) => { vcheck!(false, "parsers:frame accepted by the simulation parser only"); }
        (Err(_), Ok(_)) => { vcheck!(false, "parsers:frame accepted by the production parser only"); }
    }
    std::mem::forget((r1, r2));
}

pub fn twin() {
    let e1 = vec![RespValue::BulkString(Some(b"GET".to_vec())), RespValue::BulkString(Some(vec![vs::u8()]))];
    let r1 = Command::from_resp(&RespValue::Array(Some(e1)));
    vcheck!(r1.is_err(), "twin:reachable");
    std::mem::forget(r1);
}
