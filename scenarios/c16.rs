//! C16 — the two RESP command parsers agree: same frame => same Command or the same error text.
//! One instance = one concrete command name + concrete arity + concrete option keywords; argument
//! bytes are symbolic (1 byte unless stated), numeric arguments are symbolic digit strings.
use crate::vs;
use bytes::Bytes;
use redis_sim::redis::{Command, RespValue, RespValueZeroCopy};

#[derive(Clone, Copy)]
pub enum A {
    /// literal bytes (option keyword, sub-command)
    L(&'static [u8]),
    /// n symbolic bytes
    S(usize),
    /// n symbolic ASCII digits, optional leading '-'
    D(usize),
    /// n symbolic ASCII digits, no sign
    G(usize),
    /// 1 symbolic lower-case ASCII letter
    Lc,
    /// keyword with symbolic letter case: every ASCII letter of the literal is upper or lower case (one solver bit each)
    K(&'static [u8]),
    /// nil bulk string
    Nil,
    /// RESP integer (symbolic)
    Int,
}

fn arg_bytes(a: A) -> Option<Vec<u8>> {
    match a {
        A::L(l) => Some(l.to_vec()),
        A::S(n) => { let mut v = Vec::with_capacity(n); let mut i = 0; while i < n { v.push(vs::u8()); i += 1; } Some(v) }
        A::D(n) => {
            let neg = vs::bool();
            let mut v = Vec::with_capacity(n + 1);
            if neg { v.push(b'-'); }
            let mut i = 0;
            while i < n { let d = vs::u8(); vs::assume(d >= b'0' && d <= b'9'); v.push(d); i += 1; }
            Some(v)
        }
        A::G(n) => { let mut v = Vec::with_capacity(n); let mut i = 0; while i < n { let d = vs::u8(); vs::assume(d >= b'0' && d <= b'9'); v.push(d); i += 1; } Some(v) }
        A::K(l) => {
            let mut v = Vec::with_capacity(l.len());
            macro_rules! ch { ($($i:literal)*) => { $( if l.len() > $i { let c = l[$i]; let low = vs::bool(); v.push(if low && c.is_ascii_alphabetic() { c | 0x20 } else { c }); } )* } }
            ch!(0 1 2 3 4 5 6 7 8 9 10 11);
            Some(v)
        }
        A::Lc => { let d = vs::u8(); vs::assume(d >= b'a' && d <= b'z'); Some(vec![d]) }
        _ => None,
    }
}

/// build the same frame for both parsers and compare outcomes
pub fn diff(name: &'static [u8], args: &[A]) {
    let mut e1: Vec<RespValue> = Vec::with_capacity(args.len() + 1);
    let mut e2: Vec<RespValueZeroCopy> = Vec::with_capacity(args.len() + 1);
    e1.push(RespValue::BulkString(Some(name.to_vec())));
    e2.push(RespValueZeroCopy::BulkString(Some(Bytes::from_static(name))));
    let mut i = 0;
    while i < args.len() {
        match args[i] {
            A::Nil => { e1.push(RespValue::BulkString(None)); e2.push(RespValueZeroCopy::BulkString(None)); }
            A::Int => { let n = vs::i64(); e1.push(RespValue::Integer(n)); e2.push(RespValueZeroCopy::Integer(n)); }
            a => {
                let b = arg_bytes(a).unwrap();
                e2.push(RespValueZeroCopy::BulkString(Some(Bytes::copy_from_slice(&b))));
                e1.push(RespValue::BulkString(Some(b)));
            }
        }
        i += 1;
    }
    let f1 = RespValue::Array(Some(e1));
    let f2 = RespValueZeroCopy::Array(Some(e2));
    let r1 = Command::from_resp(&f1);
    let r2 = Command::from_resp_zero_copy(&f2);
    match (&r1, &r2) {
        (Ok(a), Ok(b)) => { vcheck!(a == b, "parsers:same frame parsed into different commands"); }
        (Err(a), Err(b)) => { vcheck!(a.as_bytes() == b.as_bytes(), "parsers:same frame rejected with different error texts"); }
        (Ok(_), Err(_)) => { vcheck!(false, "parsers:frame accepted by the simulation parser only"); }
        (Err(_), Ok(_)) => { vcheck!(false, "parsers:frame accepted by the production parser only"); }
    }
    vcover!(r1.is_ok(), "accepted");
    std::mem::forget((r1, r2, f1, f2));
}

/// one arm of the command-name match of both parsers (S7 extraction under Kani; natively the whole parsers on the
/// full frame), for every arity lo..=hi, every argument = `w` symbolic bytes (any byte values, also non-UTF-8).
/// `f.0` / `f.1` take the complete element vector (name first).
pub fn arm<F1, F2>(name: &'static [u8], lo: usize, hi: usize, w: usize, f: (F1, F2))
where F1: Fn(Vec<RespValue>) -> Result<Command, String>, F2: Fn(Vec<RespValueZeroCopy>) -> Result<Command, String> {
    macro_rules! arity { ($k:literal) => { if lo <= $k && $k <= hi { arm_one(name, $k, w, &f); } } }
    arity!(0); arity!(1); arity!(2); arity!(3); arity!(4); arity!(5); arity!(6);
}
fn arm_one<F1, F2>(name: &'static [u8], k: usize, w: usize, f: &(F1, F2))
where F1: Fn(Vec<RespValue>) -> Result<Command, String>, F2: Fn(Vec<RespValueZeroCopy>) -> Result<Command, String> {
    let mut e1: Vec<RespValue> = Vec::with_capacity(k + 1);
    let mut e2: Vec<RespValueZeroCopy> = Vec::with_capacity(k + 1);
    e1.push(RespValue::BulkString(Some(name.to_vec())));
    e2.push(RespValueZeroCopy::BulkString(Some(Bytes::from_static(name))));
    macro_rules! argn { ($i:literal) => { if k > $i {
        let (b0, b1, b2) = (vs::u8(), vs::u8(), vs::u8());
        let v: Vec<u8> = match w { 0 => Vec::new(), 1 => vec![b0], 2 => vec![b0, b1], _ => vec![b0, b1, b2] };
        e2.push(RespValueZeroCopy::BulkString(Some(Bytes::copy_from_slice(&v))));
        e1.push(RespValue::BulkString(Some(v)));
    } } }
    argn!(0); argn!(1); argn!(2); argn!(3); argn!(4); argn!(5);
    let r1 = (f.0)(e1);
    let r2 = (f.1)(e2);
    match (&r1, &r2) {
        (Ok(a), Ok(b)) => { vcheck!(a == b, "parsers:same frame parsed into different commands"); }
        (Err(a), Err(b)) => { vcheck!(a.as_bytes() == b.as_bytes(), "parsers:same frame rejected with different error texts"); }
        (Ok(_), Err(_)) => { vcheck!(false, "parsers:frame accepted by the simulation parser only"); }
        (Err(_), Ok(_)) => { vcheck!(false, "parsers:frame accepted by the production parser only"); }
    }
    std::mem::forget((r1, r2));
}

/// one arm, one concrete argument shape (literals / symbolic bytes per argument as in `diff`)
pub fn arm_spec<F1, F2>(name: &'static [u8], args: &[A], f: (F1, F2))
where F1: Fn(Vec<RespValue>) -> Result<Command, String>, F2: Fn(Vec<RespValueZeroCopy>) -> Result<Command, String> {
    let mut e1: Vec<RespValue> = Vec::with_capacity(args.len() + 1);
    let mut e2: Vec<RespValueZeroCopy> = Vec::with_capacity(args.len() + 1);
    e1.push(RespValue::BulkString(Some(name.to_vec())));
    e2.push(RespValueZeroCopy::BulkString(Some(Bytes::from_static(name))));
    let mut i = 0;
    while i < args.len() {
        match args[i] {
            A::Nil => { e1.push(RespValue::BulkString(None)); e2.push(RespValueZeroCopy::BulkString(None)); }
            A::Int => { let n = vs::i64(); e1.push(RespValue::Integer(n)); e2.push(RespValueZeroCopy::Integer(n)); }
            a => {
                let b = arg_bytes(a).unwrap();
                e2.push(RespValueZeroCopy::BulkString(Some(Bytes::copy_from_slice(&b))));
                e1.push(RespValue::BulkString(Some(b)));
            }
        }
        i += 1;
    }
    let r1 = (f.0)(e1);
    let r2 = (f.1)(e2);
    match (&r1, &r2) {
        (Ok(a), Ok(b)) => { vcheck!(a == b, "parsers:same frame parsed into different commands"); }
        (Err(a), Err(b)) => { vcheck!(a.as_bytes() == b.as_bytes(), "parsers:same frame rejected with different error texts"); }
        (Ok(_), Err(_)) => { vcheck!(false, "parsers:frame accepted by the simulation parser only"); }
        (Err(_), Ok(_)) => { vcheck!(false, "parsers:frame accepted by the production parser only"); }
    }
    std::mem::forget((r1, r2));
}

pub fn twin() {
    let e1 = vec![RespValue::BulkString(Some(b"GET".to_vec())), RespValue::BulkString(Some(vec![vs::u8()]))];
    let r1 = Command::from_resp(&RespValue::Array(Some(e1)));
    vcheck!(r1.is_err(), "twin:reachable");
    std::mem::forget(r1);
}
