//! C01 — commands behave as Redis: argument arithmetic of one command, for EVERY value of the numeric
//! arguments and of the clock. Data-layer kernels are called directly; executor operations are called
//! through the per-command hook wrappers on a bare executor (never through the dispatch `match`).
use super::util::sds1;
use crate::vs;
use redis_sim::redis::{CommandExecutor, RedisList, RespValue, Value, SDS};
use redis_sim::simulator::VirtualTime;

fn list_of(n: usize, b: &[u8; 3]) -> RedisList {
    let mut l = RedisList::new();
    let mut i = 0;
    while i < n { l.rpush(sds1(b[i])); i += 1; }
    l
}
fn any3() -> [u8; 3] { [vs::u8(), vs::u8(), vs::u8()] }

/// Redis index normalisation (LRANGE/LTRIM/GETRANGE family), over i128 so that nothing can wrap:
/// returns None for an empty result, else inclusive bounds
fn norm_range(n: i128, start: i128, stop: i128) -> Option<(usize, usize)> {
    let mut s = if start < 0 { n + start } else { start };
    let mut e = if stop < 0 { n + stop } else { stop };
    if s < 0 { s = 0; }
    if e >= n { e = n - 1; }
    if n == 0 || s > e || s >= n || e < 0 { None } else { Some((s as usize, e as usize)) }
}
fn norm_index(n: i128, index: i128) -> Option<usize> {
    let i = if index < 0 { n + index } else { index };
    if i < 0 || i >= n { None } else { Some(i as usize) }
}

/// LRANGE kernel: all isize pairs on a list of n one-byte elements
pub fn list_range(n: usize) {
    let b = any3();
    let l = list_of(n, &b);
    let (start, stop) = (vs::isize(), vs::isize());
    let r = l.range(start, stop);
    match norm_range(n as i128, start as i128, stop as i128) {
        None => { vcheck!(r.is_empty(), "lrange:empty result expected"); }
        Some((s, e)) => {
            vcheck!(r.len() == e - s + 1, "lrange:result length");
            if r.len() == e - s + 1 {
                vcheck!(r[0].as_bytes()[0] == b[s], "lrange:first element");
                vcheck!(r[r.len() - 1].as_bytes()[0] == b[e], "lrange:last element");
            }
        }
    }
    std::mem::forget((r, l));
}
/// LINDEX kernel
pub fn list_get(n: usize) {
    let b = any3();
    let l = list_of(n, &b);
    let idx = vs::isize();
    let r = l.get(idx).map(|s| s.as_bytes()[0]);
    match norm_index(n as i128, idx as i128) {
        None => { vcheck!(r.is_none(), "lindex:out of range is nil"); }
        Some(i) => { vcheck!(r == Some(b[i]), "lindex:element"); }
    }
    std::mem::forget(l);
}
/// LSET kernel (n >= 1)
pub fn list_set(n: usize) {
    let b = any3();
    let mut l = list_of(n, &b);
    let idx = vs::isize();
    let nv = vs::u8();
    let r = l.set(idx, sds1(nv));
    let want = norm_index(n as i128, idx as i128);
    vcheck!(r.is_ok() == want.is_some(), "lset:error iff index out of range");
    vcheck!(l.len() == n, "lset:length unchanged");
    let mut k = 0;
    let mut ok = true;
    while k < n {
        let cur = l.get(k as isize).map(|s| s.as_bytes()[0]);
        let exp = if want == Some(k) { nv } else { b[k] };
        if cur != Some(exp) { ok = false; }
        k += 1;
    }
    vcheck!(ok, "lset:exactly the addressed element changes");
    std::mem::forget((r, l));
}
/// LTRIM kernel
pub fn list_trim(n: usize) {
    let b = any3();
    let mut l = list_of(n, &b);
    let (start, stop) = (vs::isize(), vs::isize());
    l.trim(start, stop);
    match norm_range(n as i128, start as i128, stop as i128) {
        None => { vcheck!(l.is_empty(), "ltrim:list emptied"); }
        Some((s, e)) => {
            vcheck!(l.len() == e - s + 1, "ltrim:remaining length");
            if l.len() == e - s + 1 {
                vcheck!(l.get(0).map(|x| x.as_bytes()[0]) == Some(b[s]), "ltrim:first kept element");
                vcheck!(l.get(-1).map(|x| x.as_bytes()[0]) == Some(b[e]), "ltrim:last kept element");
            }
        }
    }
    std::mem::forget(l);
}

fn bare_at(now: u64) -> CommandExecutor {
    let mut ex = CommandExecutor::verif_new_bare();
    ex.update_time_readonly(VirtualTime::from_millis(now));
    ex
}
fn is_err(r: &RespValue) -> bool { matches!(r, RespValue::Error(_)) }
fn int_of(r: &RespValue) -> Option<i64> { if let RespValue::Integer(n) = r { Some(*n) } else { None } }

/// SET k v PX px at `now`, observed at `now+dt`: error iff px <= 0; visible iff dt < px; PTTL/TTL consistent
pub fn set_px_then_observe() {
    let now = vs::u64();
    vs::assume(now < (1u64 << 40));
    let mut ex = bare_at(now);
    let px = vs::i64();
    let v = sds1(b'v');
    let r = ex.verif_set("k", &v, &None, &Some(px), &None, &None, &false, &false, &false, &false);
    let e = is_err(&r);
    vcheck!(e == (px <= 0 || (px as i128) > i64::MAX as i128 - now as i128), "set px:error iff px <= 0 or the deadline leaves i64");
    if !e {
        let dt = vs::u64();
        vs::assume(dt < (1u64 << 40));
        ex.update_time_readonly(VirtualTime::from_millis(now + dt));
        let pttl = ex.verif_pttl("k");
        let ttl = ex.verif_ttl("k");
        let g = ex.verif_get("k");
        let visible = matches!(g, RespValue::BulkString(Some(_)));
        let should = (dt as i128) < (px as i128);
        vcheck!(visible == should, "expiry:visible at every instant strictly before the deadline and at none at or after it");
        if should {
            let rem = px as i128 - dt as i128;
            vcheck!(int_of(&pttl).map(|x| x as i128) == Some(rem), "pttl:remaining milliseconds");
            let t = int_of(&ttl).unwrap_or(-9) as i128;
            vcheck!(t * 1000 > rem - 1000 && t * 1000 < rem + 1000 && t >= 0, "ttl:remaining seconds (either rounding)");
        } else {
            vcheck!(int_of(&pttl) == Some(-2) && int_of(&ttl) == Some(-2), "ttl:-2 once expired");
        }
        vcover!(should, "still visible");
        vcover!(!should, "expired");
        std::mem::forget((g, pttl, ttl));
    }
    std::mem::forget((r, ex, v));
}

/// SET k v EX s: error iff s <= 0 or s*1000 overflows; visible iff dt < s*1000
pub fn set_ex_then_observe() {
    let now = vs::u64();
    vs::assume(now < (1u64 << 40));
    let mut ex = bare_at(now);
    let s = vs::i64();
    let v = sds1(b'v');
    let r = ex.verif_set("k", &v, &Some(s), &None, &None, &None, &false, &false, &false, &false);
    let e = is_err(&r);
    vcheck!(e == (s <= 0 || (s as i128) * 1000 > i64::MAX as i128 - now as i128), "set ex:error iff s <= 0 or the deadline leaves i64");
    if !e {
        let dt = vs::u64();
        vs::assume(dt < (1u64 << 40));
        ex.update_time_readonly(VirtualTime::from_millis(now + dt));
        let g = ex.verif_get("k");
        let visible = matches!(g, RespValue::BulkString(Some(_)));
        vcheck!(visible == ((dt as i128) < (s as i128) * 1000), "expiry:visible at every instant strictly before the deadline and at none at or after it");
        std::mem::forget(g);
    }
    std::mem::forget((r, ex, v));
}

/// EXPIRE / PEXPIRE with NX|XX|GT|LT on an existing string key that may already carry a deadline.
/// unit_ms: 1000 for EXPIRE, 1 for PEXPIRE
pub fn expire_options(unit_ms: i64) {
    let now = vs::u64();
    vs::assume(now < (1u64 << 40));
    let mut ex = bare_at(now);
    ex.verif_data_mut().insert("k".to_string(), Value::String(sds1(b'v')));
    let has = vs::bool();
    let d0 = vs::u64();
    vs::assume(d0 > now && d0 < (1u64 << 41));
    if has { ex.verif_expirations_mut().insert("k".to_string(), VirtualTime::from_millis(d0)); }
    let t = vs::i64();
    let opt = vs::u8();
    vs::assume(opt < 5); // 0 none, 1 NX, 2 XX, 3 GT, 4 LT
    let r = if unit_ms == 1000 { ex.verif_expire("k", t, opt == 1, opt == 2, opt == 3, opt == 4) } else { ex.verif_pexpire("k", t, opt == 1, opt == 2, opt == 3, opt == 4) };
    let after = ex.verif_expirations().get("k").map(|v| v.as_millis());
    let exists = ex.verif_data().contains_key("k");
    let before = if has { Some(d0) } else { None };
    let new_deadline = now as i128 + (t as i128) * (unit_ms as i128);
    if is_err(&r) {
        vcheck!(exists && after == before, "expire:an error leaves key and deadline untouched");
        vcheck!((t as i128) * (unit_ms as i128) > i64::MAX as i128 - now as i128 || (t as i128) * (unit_ms as i128) < i64::MIN as i128 / 2 || t < i64::MIN / 1000, "expire:error only for out-of-range times");
    } else if t <= 0 {
        vcheck!(int_of(&r) == Some(1) && !exists && after.is_none(), "expire:non-positive time deletes the key");
    } else {
        let apply = match opt {
            1 => !has,
            2 => has,
            3 => has && new_deadline > d0 as i128,
            4 => !has || new_deadline < d0 as i128,
            _ => true,
        };
        vcheck!(int_of(&r) == Some(if apply { 1 } else { 0 }), "expire:reply 1 iff the option admits the new deadline");
        vcheck!(exists, "expire:key stays");
        if apply {
            vcheck!(after.map(|x| x as i128) == Some(new_deadline), "expire:deadline = now + time");
        } else {
            vcheck!(after == before, "expire:rejected option leaves the deadline untouched");
        }
        vcover!(apply && opt == 3, "GT applied");
        vcover!(!apply && opt == 4, "LT rejected");
    }
    std::mem::forget((r, ex));
}

/// lazy vs active expiry agree: after the clock passes the deadline through set_time (active eviction)
/// the key is gone from the keyspace; one tick earlier it is there
pub fn active_eviction() {
    let mut ex = bare_at(0);
    ex.verif_data_mut().insert("k".to_string(), Value::String(sds1(b'v')));
    let d = vs::u64();
    vs::assume(d > 0 && d < (1u64 << 40));
    ex.verif_expirations_mut().insert("k".to_string(), VirtualTime::from_millis(d));
    let t = vs::u64();
    vs::assume(t < (1u64 << 41));
    ex.set_time(VirtualTime::from_millis(t));
    let there = ex.verif_data().contains_key("k");
    vcheck!(there == (t < d), "expiry:active eviction removes the key exactly from the deadline on");
    vcheck!(ex.verif_expirations().contains_key("k") == there, "expiry:deadline table follows the keyspace");
    std::mem::forget(ex);
}

fn str_of(n: usize, b: &[u8; 3]) -> SDS {
    let mut d = [0u8; 23];
    let mut i = 0;
    while i < n { d[i] = b[i]; i += 1; }
    SDS::Inline { len: n as u8, data: d }
}
/// GETRANGE on a string of n bytes, all isize pairs
pub fn getrange(n: usize) {
    let b = any3();
    let mut ex = bare_at(0);
    ex.verif_data_mut().insert("k".to_string(), Value::String(str_of(n, &b)));
    let (start, end) = (vs::isize(), vs::isize());
    let r = ex.verif_getrange("k", start, end);
    let got: Option<&Vec<u8>> = if let RespValue::BulkString(Some(v)) = &r { Some(v) } else { None };
    vcheck!(got.is_some(), "getrange:bulk reply");
    if let Some(v) = got {
        // Redis clamps a negative end that falls before the string to 0
        let (s128, mut e128) = (start as i128, end as i128);
        if e128 < 0 && (n as i128) + e128 < 0 { e128 = -(n as i128); }
        match norm_range(n as i128, s128, e128) {
            None => { vcheck!(v.is_empty(), "getrange:empty result expected"); }
            Some((s, e)) => {
                vcheck!(v.len() == e - s + 1, "getrange:result length");
                if v.len() == e - s + 1 { vcheck!(v[0] == b[s] && v[v.len() - 1] == b[e], "getrange:content"); }
            }
        }
    }
    std::mem::forget((r, ex));
}

/// a collection that becomes empty stops existing. which: 0 LPOP, 1 RPOP, 2 LTRIM to empty, 3 SREM, 4 HDEL, 5 ZREM
pub fn empty_collection_removed(which: u8) {
    let mut ex = bare_at(0);
    let m = vs::u8();
    vs::assume(m >= b'a' && m <= b'z');
    match which {
        0 | 1 | 2 => { let mut l = RedisList::new(); l.rpush(sds1(m)); ex.verif_data_mut().insert("k".to_string(), Value::List(l)); }
        3 => { let mut s = redis_sim::redis::RedisSet::new(); s.add(sds1(m)); ex.verif_data_mut().insert("k".to_string(), Value::Set(s)); }
        4 => { let mut h = redis_sim::redis::RedisHash::new(); h.set(sds1(m), sds1(b'v')); ex.verif_data_mut().insert("k".to_string(), Value::Hash(h)); }
        _ => { let mut z = redis_sim::redis::RedisSortedSet::new(); z.add(sds1(m), 1.0); ex.verif_data_mut().insert("k".to_string(), Value::SortedSet(z)); }
    }
    ex.verif_expirations_mut().insert("k".to_string(), VirtualTime::from_millis(1000));
    let other = vs::u8();
    vs::assume(other >= b'a' && other <= b'z');
    let r = match which {
        0 => ex.verif_lpop("k"),
        1 => ex.verif_rpop("k"),
        2 => ex.verif_ltrim("k", 1, 0),
        3 => ex.verif_srem("k", &[sds1(other)]),
        4 => ex.verif_hdel("k", &[sds1(other)]),
        _ => ex.verif_zrem("k", &[sds1(other)]),
    };
    let removed_last = which <= 2 || other == m;
    let there = ex.verif_data().contains_key("k");
    vcheck!(there == !removed_last, "empty:a collection that becomes empty stops existing (and one that does not, stays)");
    vcheck!(ex.verif_expirations().contains_key("k") == there, "empty:deadline table follows the keyspace");
    let ty = ex.verif_typeof("k");
    vcheck!(matches!(&ty, RespValue::SimpleString(s) if (s == "none") == removed_last), "empty:TYPE says none exactly when emptied");
    vcover!(removed_last, "last element removed");
    std::mem::forget((r, ty, ex));
}

/// through CommandExecutor::execute (the dispatch `match`): INCRBY / DECRBY on a stored small integer, any i64
/// argument: reply = stored +/- n or an error exactly when that leaves i64, and an error changes nothing.
/// which: 0 INCRBY, 1 DECRBY
pub fn dispatch_incrdecr(which: u8) {
    use redis_sim::redis::Command;
    let mut ex = bare_at(0);
    let d = vs::u8();
    vs::assume(d <= 9);
    let neg = vs::bool();
    let stored: i64 = if neg { -(d as i64) } else { d as i64 };
    let mut dat = [0u8; 23];
    let sds = if neg && d > 0 { dat[0] = b'-'; dat[1] = b'0' + d; SDS::Inline { len: 2, data: dat } } else { dat[0] = b'0' + d; SDS::Inline { len: 1, data: dat } };
    let stored = if neg && d == 0 { 0 } else { stored };
    ex.verif_data_mut().insert("k".to_string(), Value::String(sds));
    let n = vs::i64();
    let cmd = if which == 0 { Command::IncrBy("k".to_string(), n) } else { Command::DecrBy("k".to_string(), n) };
    let r = ex.execute(&cmd);
    let want = if which == 0 { (stored as i128) + (n as i128) } else { (stored as i128) - (n as i128) };
    let fits = want >= i64::MIN as i128 && want <= i64::MAX as i128 && !(which == 1 && n == i64::MIN);
    if fits {
        vcheck!(int_of(&r).map(|x| x as i128) == Some(want), "incr:reply is the exact sum");
    } else {
        vcheck!(is_err(&r), "incr:result outside i64 (or DECRBY of i64::MIN) must be an error");
        let still = match ex.verif_data().get("k") { Some(Value::String(s)) => s.as_bytes().len() == (if neg && d > 0 { 2 } else { 1 }), _ => false };
        vcheck!(still, "incr:an error leaves the stored value untouched");
    }
    vcover!(!fits, "overflowing argument");
    std::mem::forget((r, cmd, ex));
}

pub fn twin() {
    let mut ex = bare_at(5);
    let v = sds1(b'v');
    let r = ex.verif_set("k", &v, &None, &Some(10), &None, &None, &false, &false, &false, &false);
    let g = ex.verif_get("k");
    vcheck!(!matches!(g, RespValue::BulkString(Some(_))), "twin:reachable");
    std::mem::forget((r, g, ex, v));
}
