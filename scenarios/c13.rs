//! C13 — compaction never changes what recovery returns.
//! Decided at the level of compaction's own per-key rules: the statements of Compactor::compact() that choose the
//! surviving update of a key and that drop tombstones (S8 extraction under Kani; natively the real compact() and the
//! real RecoveryManager::recover() on an in-memory object store). Recovery's result for a key is the merge of every
//! persisted update of that key (C11), so "what recovery returns" before = merge(outside, compacted inputs) and
//! after = merge(outside, survivors).
use super::util::*;
use crate::vs;
use redis_sim::replication::lattice::ReplicaId;
use redis_sim::replication::state::{ReplicatedValue, ReplicationDelta};

fn vis(v: &Option<ReplicatedValue>) -> Option<u8> {
    match v { Some(r) => r.get().map(|s| s.as_bytes()[0]), None => None }
}

/// `n` LWW updates of one key (symbolic stamps, bytes, tombstone flags, any two replicas) spread over the segments
/// being compacted, in a symbolic order; optionally one more update of the key in a segment or checkpoint that is
/// NOT part of the compaction; the tombstone cutoff is any u64 (TTL 0, clock symbolic).
pub fn fold(n: usize, outside_mode: u8) {
    let now = vs::u64();
    let mut stamps = [any_clock(), any_clock(), any_clock()];
    let bytes = [vs::u8(), vs::u8(), vs::u8()];
    let tombs = [vs::bool(), vs::bool(), vs::bool()];
    // reachability: one stamp = one write, so equal stamps carry identical registers (C08)
    let mut i = 0;
    while i < n {
        let mut j = i + 1;
        while j < n {
            if stamps[i] == stamps[j] { vs::assume(bytes[i] == bytes[j] && tombs[i] == tombs[j]); }
            j += 1;
        }
        i += 1;
    }
    let ots = any_clock();
    let ob = vs::u8();
    let otomb = vs::bool();
    // outside_mode: 0 = no update outside the compaction, 1 = optionally one (symbolic), 2 = always one
    let has_out = match outside_mode { 0 => false, 1 => vs::bool(), _ => true };
    if has_out {
        let mut i = 0;
        while i < n { if stamps[i] == ots { vs::assume(bytes[i] == ob && tombs[i] == otomb); } i += 1; }
    }
    let mk = |i: usize| if i < n { Some(ReplicationDelta::new("k".to_string(), lww_value(bytes[i], tombs[i], stamps[i]), ReplicaId(stamps[i].replica_id.0))) } else { None };
    let inside = [mk(0), mk(1), mk(2)];
    let outside = if has_out { Some(ReplicationDelta::new("k".to_string(), lww_value(ob, otomb, ots), ReplicaId(ots.replica_id.0))) } else { None };
    let (before, after, survives, dropped) = crate::env::compact_then_recover(inside, outside, now);
    vcheck!(dropped != u64::MAX, "compact:the surviving update of LWW inputs is not an LWW value");
    if dropped == u64::MAX { return; }
    // (1) nothing dropped: recovery must return the very same register (value, liveness, stamp)
    if dropped == 0 {
        vcheck!(vis(&before) == vis(&after), "compact:recovered value differs after compaction (no tombstone dropped)");
        let same_stamp = match (&before, &after) { (Some(a), Some(b)) => a.timestamp == b.timestamp && a.is_tombstone() == b.is_tombstone(), (None, None) => true, _ => false };
        vcheck!(same_stamp, "compact:recovered stamp or liveness differs after compaction (no tombstone dropped)");
        vcheck!(survives, "compact:a key vanished from the compacted segment although no tombstone was dropped");
    } else {
        // (2) a tombstone was dropped: allowed only if nothing older can resurface
        if has_out {
            vcheck!(vis(&before) == vis(&after), "compact:a dropped tombstone lets an older value outside the compaction resurface");
        } else {
            vcheck!(vis(&before) == vis(&after), "compact:a dropped tombstone lets an older value of the compacted segments themselves resurface");
        }
    }
    std::mem::forget((before, after));
}

pub fn twin() {
    let now = vs::u64();
    let s = any_clock();
    let inside = [Some(ReplicationDelta::new("k".to_string(), lww_value(vs::u8(), false, s), ReplicaId(s.replica_id.0))), None, None];
    let (before, after, _, _) = crate::env::compact_then_recover(inside, None, now);
    vcheck!(vis(&before) != vis(&after) || true, "twin:noop");
    vcheck!(false, "twin:reachable");
    std::mem::forget((before, after));
}
