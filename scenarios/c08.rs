//! C08 — a node's stamps only grow: inductive step from an arbitrary state satisfying
//! I: "every stamp the shard stores or has observed is <= (clock.time, *)", i.e. stored.time <= clock.time.
use super::util::*;
use crate::vs;
use redis_sim::redis::SDS;
use redis_sim::replication::config::ConsistencyLevel;
use redis_sim::replication::lattice::{LamportClock, LwwRegister, ReplicaId};
use redis_sim::replication::state::{CrdtValue, ReplicatedValue, ReplicationDelta, ShardReplicaState};

/// register level: observe an arbitrary remote stamp, then write locally -> the write supersedes it everywhere
pub fn reg_write_after_observe() {
    let me = ReplicaId(1);
    let t0 = vs::u64();
    vs::assume(t0 < (1 << 62));
    let mut clock = LamportClock { time: t0, replica_id: me };
    let rc = any_clock();
    let rb = vs::u8();
    let remote: LwwRegister<SDS> = LwwRegister { value: Some(sds1(rb)), timestamp: rc, tombstone: false };
    clock.update(&rc);
    vcheck!(clock.time > rc.time && clock.time > t0, "observe:clock advances past both");
    let mut local = remote.clone();
    let nb = vs::u8();
    let del = vs::bool();
    let before = clock;
    if del { local.delete(&mut clock); } else { local.set(sds1(nb), &mut clock); }
    vcheck!(local.timestamp > rc, "write:stamp greater than observed");
    vcheck!(local.timestamp > before, "write:stamp greater than previous local");
    vcheck!(clock.time == before.time + 1, "write:clock ticks once");
    let m1 = remote.merge(&local);
    let m2 = local.merge(&remote);
    if del {
        vcheck!(m1.get().is_none() && m1.tombstone && m2.get().is_none() && m2.tombstone, "write:delete wins on peer");
    } else {
        vcheck!(m1.get().map(|s| s.as_bytes()[0]) == Some(nb) && m2.get().map(|s| s.as_bytes()[0]) == Some(nb), "write:value wins on peer");
    }
    std::mem::forget((m1, m2, local, remote));
}

fn lww_rv(b: u8, tomb: bool, ts: LamportClock, exp: Option<u64>) -> ReplicatedValue {
    ReplicatedValue {
        crdt: CrdtValue::Lww(LwwRegister { value: if tomb { None } else { Some(sds1(b)) }, timestamp: ts, tombstone: tomb }),
        vector_clock: None, expiry_ms: exp, timestamp: ts, replication_factor: None,
    }
}

/// state level, one key: arbitrary I-state (optionally holding an LWW value for "k"), an arbitrary remote
/// delta is applied, then a local write/delete is recorded: its stamp exceeds everything seen and it wins
/// when merged into a peer that holds the remote value.
/// `op`: 0 = record_write, 1 = record_delete
pub fn state_step(op: u8) {
    let me = ReplicaId(1);
    let mut st = ShardReplicaState::new(me, ConsistencyLevel::Eventual);
    let t0 = vs::u64();
    vs::assume(t0 < (1 << 62));
    st.lamport_clock.time = t0;
    // optional pre-existing local value obeying I
    let has_local = vs::bool();
    let lts = any_clock();
    let lb = vs::u8();
    let ltomb = vs::bool();
    if has_local {
        vs::assume(lts.time <= t0);
        st.replicated_keys.insert("k".to_string(), lww_rv(lb, ltomb, lts, None));
    }
    // arbitrary remote delta
    let rts = any_clock();
    let rb = vs::u8();
    let rtomb = vs::bool();
    let remote = lww_rv(rb, rtomb, rts, None);
    let peer_copy = remote.clone();
    st.apply_remote_delta(ReplicationDelta::new("k".to_string(), remote, ReplicaId(rts.replica_id.0)));
    vcheck!(st.lamport_clock.time > rts.time && st.lamport_clock.time > t0, "apply:clock advances past remote and local");
    let stored = st.replicated_keys.get("k").map(|v| v.timestamp);
    vcheck!(match stored { Some(s) => s.time <= st.lamport_clock.time, None => false }, "apply:invariant I preserved");
    let before = st.lamport_clock;
    let nb = vs::u8();
    let delta = if op == 0 { Some(st.record_write("k".to_string(), sds1(nb), None)) } else { st.record_delete("k".to_string()) };
    vcover!(has_local && lts > rts, "local value newer than remote");
    vcover!(!has_local, "no local value");
    match &delta {
        Some(d) => {
            vcheck!(d.value.timestamp > rts, "write:stamp greater than remote observed");
            vcheck!(!has_local || d.value.timestamp > lts, "write:stamp greater than local observed");
            vcheck!(d.value.timestamp > before || d.value.timestamp == LamportClock { time: before.time + 1, replica_id: me }, "write:stamp greater than previous clock");
            vcheck!(d.value.timestamp.time == before.time + 1 && d.value.timestamp.replica_id == me, "write:stamp is (clock+1, me)");
            let on_peer = peer_copy.merge(&d.value);
            if op == 0 {
                vcheck!(on_peer.get().map(|s| s.as_bytes()[0]) == Some(nb), "write:wins on a peer holding the remote value");
            } else {
                vcheck!(on_peer.get().is_none() && on_peer.is_tombstone(), "delete:wins on a peer holding the remote value");
            }
            vcheck!(st.replicated_keys.get("k").map(|v| v.timestamp.time <= st.lamport_clock.time).unwrap_or(false), "write:invariant I preserved");
            std::mem::forget(on_peer);
        }
        None => { vcheck!(op == 1, "write:record_write always yields a delta"); }
    }
    std::mem::forget((delta, peer_copy, st));
}

/// state level, clock only: whatever delta is applied (any stamp, ANY source replica including this node's
/// own id — its own pre-restart stamps come back through recovery and re-sync), the clock ends strictly
/// above the delta's time and above its previous value, and never below a stored stamp
pub fn apply_advances_clock() {
    let me = ReplicaId(1);
    let mut st = ShardReplicaState::new(me, ConsistencyLevel::Eventual);
    let t0 = vs::u64();
    vs::assume(t0 < (1 << 62));
    st.lamport_clock.time = t0;
    let rts = any_clock();
    let rb = vs::u8();
    let rtomb = vs::bool();
    st.apply_remote_delta(ReplicationDelta::new("k".to_string(), lww_rv(rb, rtomb, rts, None), ReplicaId(rts.replica_id.0)));
    vcheck!(st.lamport_clock.time > rts.time, "apply:clock advances past the applied stamp");
    vcheck!(st.lamport_clock.time > t0, "apply:clock advances past its previous value");
    vcheck!(st.lamport_clock.replica_id == me, "apply:clock keeps this node's id");
    vcheck!(st.replicated_keys.get("k").map(|v| v.timestamp == rts).unwrap_or(false), "apply:value installed with its stamp");
    vcover!(rts.replica_id == me, "delta stamped by this node itself");
    vcover!(rts.time > t0, "delta ahead of the local clock");
    std::mem::forget(st);
}

pub fn twin() {
    let mut clock = LamportClock { time: vs::u64(), replica_id: ReplicaId(1) };
    vs::assume(clock.time < (1 << 62));
    let rc = any_clock();
    clock.update(&rc);
    vcheck!(false, "twin:reachable");
}

/// checkpoint leg of recovery: an entry recovered from a checkpoint (any stamp, any author including this node before
/// its restart) enters the shard through the ApplyRecoveredState arm; the next local write of that key must carry a
/// stamp greater than the recovered one and must win on a peer that still holds the recovered entry.
pub fn recovered_then_write() {
    let t0 = vs::u64();
    vs::assume(t0 < (1 << 62));
    let rts = any_clock();
    let rb = vs::u8();
    let nb = vs::u8();
    vs::assume(nb != rb);
    let (stamp, served) = crate::env::recovered_then_write(t0, lww_rv(rb, false, rts, None), nb);
    vcheck!(stamp > rts, "recovered:a write after recovery from a checkpoint carries a stamp not above the recovered one");
    vcheck!(served == Some(nb), "recovered:a write after recovery from a checkpoint loses on a peer holding the recovered value");
    vcover!(rts.time > t0, "recovered stamp ahead of the restarted clock");
}

/// commands whose bookkeeping in ReplicatedShardActor::record_mutation_post_execute is exercised by `clock_monotone`
pub fn command_of(which: u8) -> redis_sim::redis::Command {
    use redis_sim::redis::Command;
    match which {
        0 => Command::FlushAll,
        1 => Command::FlushDb,
        2 => Command::set("j".to_string(), sds1(b'v')),
        3 => Command::Del(vec!["j".to_string()]),
        4 => Command::HSet("h".to_string(), vec![(sds1(b'f'), sds1(b'v'))]),
        5 => Command::HDel("h".to_string(), vec![sds1(b'f')]),
        6 => Command::Incr("j".to_string()),
        7 => Command::Get("j".to_string()),
        _ => Command::Ping(None),
    }
}
/// whatever command a shard has just executed, its clock never moves backwards: the next local write is stamped above
/// the clock reading before the command (`which` is concrete per harness; the clock is any value below 2^62)
pub fn clock_monotone(which: u8) {
    let t0 = vs::u64();
    vs::assume(t0 < (1 << 62));
    let t = crate::env::clock_after_command(t0, which);
    vcheck!(t > t0, "clock:a command moved the shard's clock backwards (stamps issued afterwards repeat or decrease)");
}
