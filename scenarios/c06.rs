//! C06 — replicas converge (replication-state level): two replicas, one local update each on the same
//! key from a common pre-state, deltas cross-delivered; both end with the same observable value, and for
//! plain writes the survivor carries the greatest (time, replica) stamp.
use super::util::*;
use crate::vs;
use redis_sim::redis::SDS;
use redis_sim::replication::config::ConsistencyLevel;
use redis_sim::replication::lattice::{LamportClock, LwwRegister, ReplicaId};
use redis_sim::replication::state::{CrdtValue, ReplicatedValue, ReplicationDelta, ShardReplicaState};

fn mk(me: u64) -> ShardReplicaState {
    let mut st = ShardReplicaState::new(ReplicaId(me), ConsistencyLevel::Eventual);
    let t = vs::u64();
    vs::assume(t < (1 << 62));
    st.lamport_clock.time = t;
    st
}
/// update kinds: 0 = SET (record_write), 1 = DEL (record_delete), 2 = HSET f (record_hash_write), 3 = HDEL f
fn apply_update(st: &mut ShardReplicaState, kind: u8, byte: u8) -> Option<ReplicationDelta> {
    match kind {
        0 => Some(st.record_write("k".to_string(), sds1(byte), None)),
        1 => st.record_delete("k".to_string()),
        2 => Some(st.record_hash_write("k".to_string(), vec![("f".to_string(), sds1(byte))])),
        _ => st.record_hash_delete("k".to_string(), vec!["f".to_string()]),
    }
}
pub struct Obs { pub lww: Option<u8>, pub tomb: bool, pub is_hash: bool, pub f: Option<u8>, pub f_present: bool, pub ts: LamportClock }
pub fn obs(st: &ShardReplicaState) -> Option<Obs> {
    st.replicated_keys.get("k").map(|v| Obs {
        lww: v.get().map(|s| s.as_bytes()[0]),
        tomb: v.is_tombstone(),
        is_hash: v.is_hash(),
        f: v.hash_get("f").map(|s| s.as_bytes()[0]),
        f_present: v.get_hash().map(|h| h.contains_key("f")).unwrap_or(false),
        ts: v.timestamp,
    })
}
fn obs_same(a: &Option<Obs>, b: &Option<Obs>) -> (bool, bool, bool, bool) {
    match (a, b) {
        (Some(x), Some(y)) => (x.lww == y.lww && x.tomb == y.tomb, x.is_hash == y.is_hash, x.f == y.f, x.ts == y.ts),
        (None, None) => (true, true, true, true),
        _ => (false, false, false, false),
    }
}

/// `pre`: 0 = key absent on both, 1 = both hold the same LWW value, 2 = both hold the same hash {f}
pub fn pair(ka: u8, kb: u8, pre: u8) {
    let mut a = mk(1);
    let mut b = mk(2);
    if pre != 0 {
        // common pre-state written by replica 0 at a stamp both have observed (invariant I of C08)
        let pts = LamportClock { time: vs::u64(), replica_id: ReplicaId(0) };
        vs::assume(pts.time <= a.lamport_clock.time && pts.time <= b.lamport_clock.time);
        let pb = vs::u8();
        let v = if pre == 1 {
            ReplicatedValue { crdt: CrdtValue::Lww(LwwRegister { value: Some(sds1(pb)), timestamp: pts, tombstone: false }), vector_clock: None, expiry_ms: None, timestamp: pts, replication_factor: None }
        } else {
            let mut h = crate::coll::HashMap::new();
            h.insert("f".to_string(), LwwRegister { value: Some(sds1(pb)), timestamp: pts, tombstone: false });
            ReplicatedValue { crdt: CrdtValue::Hash(h), vector_clock: None, expiry_ms: None, timestamp: pts, replication_factor: None }
        };
        a.replicated_keys.insert("k".to_string(), v.clone());
        b.replicated_keys.insert("k".to_string(), v);
    }
    let (xa, xb) = (vs::u8(), vs::u8());
    let da = apply_update(&mut a, ka, xa);
    let db = apply_update(&mut b, kb, xb);
    // cross-delivery (each delta at most once here; duplication is the `dup` instance)
    if let Some(d) = &db { a.apply_remote_delta(d.clone()); }
    if let Some(d) = &da { b.apply_remote_delta(d.clone()); }
    let (oa, ob) = (obs(&a), obs(&b));
    let (s_lww, s_kind, s_f, s_ts) = obs_same(&oa, &ob);
    vcheck!(s_kind, "converge:same data type on both replicas");
    vcheck!(s_lww, "converge:same string value / liveness on both replicas");
    vcheck!(s_f, "converge:same hash field on both replicas");
    vcheck!(s_ts, "converge:same stamp on both replicas");
    if ka == 0 && kb == 0 {
        if let (Some(d1), Some(d2), Some(o)) = (&da, &db, &oa) {
            let want = if d1.value.timestamp > d2.value.timestamp { xa } else { xb };
            vcheck!(o.lww == Some(want), "converge:survivor is the write with the greatest (time, replica) stamp");
        }
    }
    // a DEL/HDEL of a key that does not exist produces no delta: only instances where both can are witnessed
    if !(pre == 0 && (ka == 1 || ka == 3 || kb == 1 || kb == 3)) { vcover!(da.is_some() && db.is_some(), "both updates produced deltas"); }
    std::mem::forget((da, db, oa, ob, a, b));
}

/// same as pair(0,0,0) but delta of B is delivered to A twice and A's delta reaches B after a second
/// local write on B (reordering + duplication)
pub fn dup_reorder() {
    let mut a = mk(1);
    let mut b = mk(2);
    let (xa, xb) = (vs::u8(), vs::u8());
    let da = a.record_write("k".to_string(), sds1(xa), None);
    let db = b.record_write("k".to_string(), sds1(xb), None);
    a.apply_remote_delta(db.clone());
    a.apply_remote_delta(db.clone());
    b.apply_remote_delta(da.clone());
    b.apply_remote_delta(da.clone());
    let (oa, ob) = (obs(&a), obs(&b));
    let (s_lww, s_kind, _s_f, s_ts) = obs_same(&oa, &ob);
    vcheck!(s_kind && s_lww, "converge:duplicated delivery changes nothing");
    vcheck!(s_ts, "converge:same stamp on both replicas");
    std::mem::forget((da, db, oa, ob, a, b));
}

/// all delivery orders of two updates at observers: A does u1; B (optionally after receiving u1: `causal`)
/// does u2; observers C and D start from the same pre-state (a hash {g}, or nothing) and apply the two deltas
/// in opposite orders: they must end alike.
pub fn observers(ka: u8, kb: u8, causal: bool, pre_hash_g: bool) {
    let mut a = mk(1);
    let mut b = mk(2);
    let mut c = mk(3);
    let mut d = mk(3);
    d.lamport_clock.time = c.lamport_clock.time;
    if pre_hash_g {
        let pts = LamportClock { time: vs::u64(), replica_id: ReplicaId(0) };
        vs::assume(pts.time <= a.lamport_clock.time && pts.time <= b.lamport_clock.time && pts.time <= c.lamport_clock.time);
        let pb = vs::u8();
        let mk_v = || { let mut h = crate::coll::HashMap::new(); h.insert("g".to_string(), LwwRegister { value: Some(sds1(pb)), timestamp: pts, tombstone: false }); ReplicatedValue { crdt: CrdtValue::Hash(h), vector_clock: None, expiry_ms: None, timestamp: pts, replication_factor: None } };
        a.replicated_keys.insert("k".to_string(), mk_v());
        b.replicated_keys.insert("k".to_string(), mk_v());
        c.replicated_keys.insert("k".to_string(), mk_v());
        d.replicated_keys.insert("k".to_string(), mk_v());
    }
    let (xa, xb) = (vs::u8(), vs::u8());
    let da = apply_update(&mut a, ka, xa);
    if causal { if let Some(x) = &da { b.apply_remote_delta(x.clone()); } }
    let db = apply_update(&mut b, kb, xb);
    if let (Some(x), Some(y)) = (&da, &db) {
        c.apply_remote_delta(x.clone());
        c.apply_remote_delta(y.clone());
        d.apply_remote_delta(y.clone());
        d.apply_remote_delta(x.clone());
        let (oc, od) = (obs(&c), obs(&d));
        let (s_lww, s_kind, s_f, s_ts) = obs_same(&oc, &od);
        vcheck!(s_kind, "order:same data type whatever the delivery order");
        vcheck!(s_lww, "order:same string value / liveness whatever the delivery order");
        vcheck!(s_f, "order:same hash field whatever the delivery order");
        vcheck!(s_ts, "order:same stamp whatever the delivery order");
        let fc = c.replicated_keys.get("k").and_then(|v| v.get_hash()).and_then(|h| h.get("f")).map(|l| (l.tombstone, l.timestamp));
        let fd = d.replicated_keys.get("k").and_then(|v| v.get_hash()).and_then(|h| h.get("f")).map(|l| (l.tombstone, l.timestamp));
        vcheck!(fc == fd, "order:same field register (tombstone and stamp) whatever the delivery order");
        vcover!(true, "both updates produced deltas");
        std::mem::forget((oc, od));
    }
    std::mem::forget((da, db, a, b, c, d));
}

pub fn twin() {
    let mut a = mk(1);
    let mut b = mk(2);
    let da = a.record_write("k".to_string(), sds1(1), None);
    b.apply_remote_delta(da.clone());
    let ob = obs(&b);
    vcheck!(ob.is_none(), "twin:reachable");
    std::mem::forget((da, ob, a, b));
}

// ---------------------------------------------------------------------------------------------------------------
// the glue: what a replica SERVES equals what its replication state SAYS, after remote deltas went through
// ReplicatedShardActor::apply_remote_delta_impl (S11 extraction under Kani with a recording executor; natively the
// real actor and the real executor)
fn reg_byte(l: Option<&LwwRegister<SDS>>) -> Option<u8> { l.and_then(|r| r.get()).map(|s| if s.as_bytes().len() > 0 { s.as_bytes()[0] } else { 0 }) }
fn hash_rv(f: Option<LwwRegister<SDS>>, g: Option<LwwRegister<SDS>>, ts: LamportClock) -> ReplicatedValue {
    let mut h = crate::coll::HashMap::new();
    if let Some(l) = f { h.insert("f".to_string(), l); }
    if let Some(l) = g { h.insert("g".to_string(), l); }
    ReplicatedValue { crdt: CrdtValue::Hash(h), vector_clock: None, expiry_ms: None, timestamp: ts, replication_factor: None }
}
fn reg1(b: u8, tomb: bool, ts: LamportClock) -> LwwRegister<SDS> { LwwRegister { value: if tomb { None } else { Some(sds1(b)) }, timestamp: ts, tombstone: tomb } }

/// two hash deltas of key "k" applied one after the other: first {f: r1}, then {f: r2 [, g: r3]} (registers = symbolic
/// one-byte values or tombstones with symbolic stamps, in any stamp order: late, duplicated and superseded deliveries
/// included). Afterwards the executor must serve for f and g exactly the live value the replication state holds.
pub fn glue_hash(with_g: bool) {
    let (s1, s2, s3) = (any_clock(), any_clock(), any_clock());
    let (b1, b2, b3) = (vs::u8(), vs::u8(), vs::u8());
    let (t1, t2, t3) = (vs::bool(), vs::bool(), vs::bool());
    vs::assume(b1 != 0 && b2 != 0 && b3 != 0);
    if s1 == s2 { vs::assume(b1 == b2 && t1 == t2); }
    let first = hash_rv(Some(reg1(b1, t1, s1)), None, s1);
    let outer2 = if with_g && s3 > s2 { s3 } else { s2 };
    let second = hash_rv(Some(reg1(b2, t2, s2)), if with_g { Some(reg1(b3, t3, s3)) } else { None }, outer2);
    let has_first = vs::bool();
    let (state, sv, fv, gv, other) = crate::env::glue_apply(if has_first { Some(first) } else { None }, second);
    let (want_f, want_g) = match &state {
        Some(v) => (reg_byte(v.get_hash().and_then(|h| h.get("f"))), reg_byte(v.get_hash().and_then(|h| h.get("g")))),
        None => (None, None),
    };
    vcheck!(state.is_some(), "glue:the key is missing from the replication state after a delta was applied");
    vcheck!(fv == want_f, "glue:hash field served by the executor differs from the replication state (field of both deltas)");
    vcheck!(gv == want_g, "glue:hash field served by the executor differs from the replication state (field of the second delta)");
    vcheck!(sv.is_none() && !other, "glue:the executor was asked for something other than HSET/HDEL of the delta's fields");
    std::mem::forget(state);
}

/// two LWW deltas of key "k" (symbolic stamps, values or tombstones): afterwards GET serves what the state says
pub fn glue_lww() {
    let (s1, s2) = (any_clock(), any_clock());
    let (b1, b2) = (vs::u8(), vs::u8());
    let (t1, t2) = (vs::bool(), vs::bool());
    vs::assume(b1 != 0 && b2 != 0);
    if s1 == s2 { vs::assume(b1 == b2 && t1 == t2); }
    let has_first = vs::bool();
    let (state, sv, fv, gv, other) = crate::env::glue_apply(if has_first { Some(lww_value(b1, t1, s1)) } else { None }, lww_value(b2, t2, s2));
    let want = match &state { Some(v) => v.get().map(|s| s.as_bytes()[0]), None => None };
    vcheck!(sv == want, "glue:string value served by the executor differs from the replication state");
    vcheck!(fv.is_none() && gv.is_none() && !other, "glue:the executor was asked for something other than SET/DEL of the key");
    std::mem::forget(state);
}
