// name, property, tier, unwind, stub-kind, cap seconds => scenario call
registry! {
    c07_twin,            "C07", quick,    4, plain, 120 => c07::twin();
    c07_lww_comm,        "C07", quick,    4, plain, 180 => c07::lww_commutative();
    c07_lww_idem,        "C07", quick,    4, plain, 180 => c07::lww_idempotent();
    c07_lww_assoc,       "C07", quick,    4, plain, 300 => c07::lww_associative();
    c08_twin,            "C08", quick,    4, plain, 120 => c08::twin();
    c08_reg_step,        "C08", quick,    4, plain, 120 => c08::reg_write_after_observe(); // all stamps < 2^62, 1-byte values
    c08_state_write,     "C08", quick,    6, plain, 600 => c08::state_step(0); // one key, LWW values, arbitrary I-state + arbitrary remote delta, then record_write
    c08_state_delete,    "C08", quick,    6, plain, 600 => c08::state_step(1); // same, then record_delete
    c10_twin,            "C10", quick,    8, plain, 120 => c10::twin();
    c10_decode_total_0,  "C10", quick,    20, plain, 120 => c10::decode_total(0); // payload length 0, all other bytes symbolic
    c10_decode_total_1,  "C10", quick,    20, plain, 120 => c10::decode_total(1);
    c10_decode_total_3,  "C10", quick,    20, plain, 180 => c10::decode_total(3);
    c10_roundtrip_0,     "C10", quick,    8, plain, 120 => c10::roundtrip(0);
    c10_roundtrip_2,     "C10", quick,    8, plain, 180 => c10::roundtrip(2);
    c10_roundtrip_4,     "C10", thorough, 8, plain, 600 => c10::roundtrip(4);
    c10_truncation_2,    "C10", quick,    8, plain, 300 => c10::truncation(2);
    c10_bitflip_stamp_2, "C10", quick,    8, plain, 600 => c10::bitflip(2, 1);
    c10_bitflip_crc_2,   "C10", quick,    8, plain, 600 => c10::bitflip(2, 2);
    c10_bitflip_data_2,  "C10", quick,    8, plain, 600 => c10::bitflip(2, 3);
    c10_bitflip_len_2,   "C10", quick,    8, plain, 600 => c10::bitflip(2, 0);
    c15_twin, "C15", quick, 12, alloc, 120 => c15::twin();
    c15_bulk_m2_t1, "C15", thorough, 12, alloc, 300 => c15::bulk(b"-2", None, 1); // '$' + length text "-2" + CRLF + 1 symbolic bytes; both decoders
    c15_bulk_m2_t2, "C15", quick, 12, alloc, 1500 => c15::bulk(b"-2", None, 2); // '$' + length text "-2" + CRLF + 2 symbolic bytes; both decoders
    c15_bulk_m1_t0, "C15", quick, 12, alloc, 300 => c15::bulk(b"-1", Some(-1), 0); // '$' + length text "-1" + CRLF + 0 symbolic bytes; both decoders
    c15_bulk_m1_t2, "C15", thorough, 12, alloc, 300 => c15::bulk(b"-1", Some(-1), 2); // '$' + length text "-1" + CRLF + 2 symbolic bytes; both decoders
    c15_bulk_0_t1, "C15", thorough, 12, alloc, 300 => c15::bulk(b"0", Some(0), 1); // '$' + length text "0" + CRLF + 1 symbolic bytes; both decoders
    c15_bulk_0_t2, "C15", quick, 12, alloc, 300 => c15::bulk(b"0", Some(0), 2); // '$' + length text "0" + CRLF + 2 symbolic bytes; both decoders
    c15_bulk_0_t3, "C15", thorough, 12, alloc, 300 => c15::bulk(b"0", Some(0), 3); // '$' + length text "0" + CRLF + 3 symbolic bytes; both decoders
    c15_bulk_1_t2, "C15", thorough, 12, alloc, 300 => c15::bulk(b"1", Some(1), 2); // '$' + length text "1" + CRLF + 2 symbolic bytes; both decoders
    c15_bulk_1_t3, "C15", quick, 12, alloc, 300 => c15::bulk(b"1", Some(1), 3); // '$' + length text "1" + CRLF + 3 symbolic bytes; both decoders
    c15_bulk_1_t4, "C15", thorough, 12, alloc, 300 => c15::bulk(b"1", Some(1), 4); // '$' + length text "1" + CRLF + 4 symbolic bytes; both decoders
    c15_bulk_2_t3, "C15", quick, 12, alloc, 300 => c15::bulk(b"2", Some(2), 3); // '$' + length text "2" + CRLF + 3 symbolic bytes; both decoders
    c15_bulk_2_t4, "C15", quick, 12, alloc, 300 => c15::bulk(b"2", Some(2), 4); // '$' + length text "2" + CRLF + 4 symbolic bytes; both decoders
    c15_bulk_2_t5, "C15", thorough, 12, alloc, 300 => c15::bulk(b"2", Some(2), 5); // '$' + length text "2" + CRLF + 5 symbolic bytes; both decoders
    c15_bulk_3_t4, "C15", thorough, 12, alloc, 300 => c15::bulk(b"3", Some(3), 4); // '$' + length text "3" + CRLF + 4 symbolic bytes; both decoders
    c15_bulk_3_t5, "C15", thorough, 12, alloc, 300 => c15::bulk(b"3", Some(3), 5); // '$' + length text "3" + CRLF + 5 symbolic bytes; both decoders
    c15_bulk_3_t6, "C15", thorough, 12, alloc, 300 => c15::bulk(b"3", Some(3), 6); // '$' + length text "3" + CRLF + 6 symbolic bytes; both decoders
    c15_bulk_2p31_t1, "C15", thorough, 14, alloc, 300 => c15::bulk(b"2147483648", Some(2147483648), 1); // '$' + length text "2147483648" + CRLF + 1 symbolic bytes; both decoders
    c15_bulk_2p31_t2, "C15", thorough, 14, alloc, 300 => c15::bulk(b"2147483648", Some(2147483648), 2); // '$' + length text "2147483648" + CRLF + 2 symbolic bytes; both decoders
    c15_bulk_i64max_t1, "C15", thorough, 26, alloc, 300 => c15::bulk(b"9223372036854775807", Some(9223372036854775807), 1); // '$' + length text "9223372036854775807" + CRLF + 1 symbolic bytes; both decoders
    c15_bulk_i64max_t2, "C15", quick, 26, alloc, 300 => c15::bulk(b"9223372036854775807", Some(9223372036854775807), 2); // '$' + length text "9223372036854775807" + CRLF + 2 symbolic bytes; both decoders
    c15_bulk_u64max_t1, "C15", thorough, 26, alloc, 300 => c15::bulk(b"18446744073709551615", None, 1); // '$' + length text "18446744073709551615" + CRLF + 1 symbolic bytes; both decoders
    c15_bulk_u64max_t2, "C15", thorough, 26, alloc, 300 => c15::bulk(b"18446744073709551615", None, 2); // '$' + length text "18446744073709551615" + CRLF + 2 symbolic bytes; both decoders
    c15_bulk_huge_t1, "C15", quick, 26, alloc, 300 => c15::bulk(b"99999999999999999999", None, 1); // '$' + length text "99999999999999999999" + CRLF + 1 symbolic bytes; both decoders
    c15_bulk_huge_t2, "C15", thorough, 26, alloc, 300 => c15::bulk(b"99999999999999999999", None, 2); // '$' + length text "99999999999999999999" + CRLF + 2 symbolic bytes; both decoders
    c15_bulk_empty_t1, "C15", quick, 12, alloc, 300 => c15::bulk(b"", None, 1); // '$' + length text "" + CRLF + 1 symbolic bytes; both decoders
    c15_bulk_empty_t2, "C15", thorough, 12, alloc, 300 => c15::bulk(b"", None, 2); // '$' + length text "" + CRLF + 2 symbolic bytes; both decoders
    c15_bulk_alpha_t1, "C15", thorough, 12, alloc, 300 => c15::bulk(b"x", None, 1); // '$' + length text "x" + CRLF + 1 symbolic bytes; both decoders
    c15_bulk_alpha_t2, "C15", thorough, 12, alloc, 300 => c15::bulk(b"x", None, 2); // '$' + length text "x" + CRLF + 2 symbolic bytes; both decoders
    c15_array_m2_n0, "C15", thorough, 12, alloc, 300 => c15::array(b"-2", None, 0, false); // '*' + length text "-2" + 0 one-byte bulk elements
    c15_array_m2_n1, "C15", quick, 12, alloc, 1500 => c15::array(b"-2", None, 1, false); // '*' + length text "-2" + 1 one-byte bulk elements
    c15_array_m1_n0, "C15", thorough, 12, alloc, 300 => c15::array(b"-1", Some(-1), 0, false); // '*' + length text "-1" + 0 one-byte bulk elements
    c15_array_m1_n1, "C15", thorough, 12, alloc, 300 => c15::array(b"-1", Some(-1), 1, false); // '*' + length text "-1" + 1 one-byte bulk elements
    c15_array_0_n0, "C15", thorough, 12, alloc, 300 => c15::array(b"0", Some(0), 0, false); // '*' + length text "0" + 0 one-byte bulk elements
    c15_array_0_n1, "C15", thorough, 12, alloc, 300 => c15::array(b"0", Some(0), 1, false); // '*' + length text "0" + 1 one-byte bulk elements
    c15_array_0_n1p, "C15", thorough, 12, alloc, 300 => c15::array(b"0", Some(0), 1, true); // '*' + length text "0" + 1 one-byte bulk elements (last one cut after its header)
    c15_array_0_n2, "C15", thorough, 12, alloc, 300 => c15::array(b"0", Some(0), 2, false); // '*' + length text "0" + 2 one-byte bulk elements
    c15_array_0_n2p, "C15", thorough, 12, alloc, 300 => c15::array(b"0", Some(0), 2, true); // '*' + length text "0" + 2 one-byte bulk elements (last one cut after its header)
    c15_array_1_n0, "C15", thorough, 12, alloc, 300 => c15::array(b"1", Some(1), 0, false); // '*' + length text "1" + 0 one-byte bulk elements
    c15_array_1_n1, "C15", thorough, 12, alloc, 300 => c15::array(b"1", Some(1), 1, false); // '*' + length text "1" + 1 one-byte bulk elements
    c15_array_1_n1p, "C15", thorough, 12, alloc, 300 => c15::array(b"1", Some(1), 1, true); // '*' + length text "1" + 1 one-byte bulk elements (last one cut after its header)
    c15_array_1_n2, "C15", quick, 12, alloc, 300 => c15::array(b"1", Some(1), 2, false); // '*' + length text "1" + 2 one-byte bulk elements
    c15_array_1_n2p, "C15", thorough, 12, alloc, 300 => c15::array(b"1", Some(1), 2, true); // '*' + length text "1" + 2 one-byte bulk elements (last one cut after its header)
    c15_array_2_n0, "C15", thorough, 12, alloc, 300 => c15::array(b"2", Some(2), 0, false); // '*' + length text "2" + 0 one-byte bulk elements
    c15_array_2_n1, "C15", thorough, 12, alloc, 300 => c15::array(b"2", Some(2), 1, false); // '*' + length text "2" + 1 one-byte bulk elements
    c15_array_2_n1p, "C15", thorough, 12, alloc, 300 => c15::array(b"2", Some(2), 1, true); // '*' + length text "2" + 1 one-byte bulk elements (last one cut after its header)
    c15_array_2_n2, "C15", quick, 12, alloc, 300 => c15::array(b"2", Some(2), 2, false); // '*' + length text "2" + 2 one-byte bulk elements
    c15_array_2_n2p, "C15", quick, 12, alloc, 300 => c15::array(b"2", Some(2), 2, true); // '*' + length text "2" + 2 one-byte bulk elements (last one cut after its header)
    c15_array_3_n0, "C15", thorough, 12, alloc, 300 => c15::array(b"3", Some(3), 0, false); // '*' + length text "3" + 0 one-byte bulk elements
    c15_array_3_n1, "C15", thorough, 12, alloc, 300 => c15::array(b"3", Some(3), 1, false); // '*' + length text "3" + 1 one-byte bulk elements
    c15_array_3_n1p, "C15", thorough, 12, alloc, 300 => c15::array(b"3", Some(3), 1, true); // '*' + length text "3" + 1 one-byte bulk elements (last one cut after its header)
    c15_array_3_n2, "C15", thorough, 12, alloc, 300 => c15::array(b"3", Some(3), 2, false); // '*' + length text "3" + 2 one-byte bulk elements
    c15_array_3_n2p, "C15", thorough, 12, alloc, 300 => c15::array(b"3", Some(3), 2, true); // '*' + length text "3" + 2 one-byte bulk elements (last one cut after its header)
    c15_array_2p31_n0, "C15", quick, 14, alloc, 300 => c15::array(b"2147483648", Some(2147483648), 0, false); // '*' + length text "2147483648" + 0 one-byte bulk elements
    c15_array_2p31_n1, "C15", thorough, 14, alloc, 300 => c15::array(b"2147483648", Some(2147483648), 1, false); // '*' + length text "2147483648" + 1 one-byte bulk elements
    c15_array_i64max_n0, "C15", thorough, 26, alloc, 300 => c15::array(b"9223372036854775807", Some(9223372036854775807), 0, false); // '*' + length text "9223372036854775807" + 0 one-byte bulk elements
    c15_array_i64max_n1, "C15", quick, 26, alloc, 300 => c15::array(b"9223372036854775807", Some(9223372036854775807), 1, false); // '*' + length text "9223372036854775807" + 1 one-byte bulk elements
    c15_array_huge_n0, "C15", thorough, 26, alloc, 300 => c15::array(b"99999999999999999999", None, 0, false); // '*' + length text "99999999999999999999" + 0 one-byte bulk elements
    c15_array_huge_n1, "C15", thorough, 26, alloc, 300 => c15::array(b"99999999999999999999", None, 1, false); // '*' + length text "99999999999999999999" + 1 one-byte bulk elements
    c15_prefix_bulk_c1, "C15", thorough, 12, alloc, 300 => c15::prefix_stable_bulk(1); // '$2' frame + 5 symbolic bytes, prefix of 1 bytes vs whole
    c15_prefix_bulk_c3, "C15", thorough, 12, alloc, 300 => c15::prefix_stable_bulk(3); // '$2' frame + 5 symbolic bytes, prefix of 3 bytes vs whole
    c15_prefix_bulk_c4, "C15", quick, 12, alloc, 300 => c15::prefix_stable_bulk(4); // '$2' frame + 5 symbolic bytes, prefix of 4 bytes vs whole
    c15_prefix_bulk_c5, "C15", thorough, 12, alloc, 300 => c15::prefix_stable_bulk(5); // '$2' frame + 5 symbolic bytes, prefix of 5 bytes vs whole
    c15_prefix_bulk_c6, "C15", quick, 12, alloc, 300 => c15::prefix_stable_bulk(6); // '$2' frame + 5 symbolic bytes, prefix of 6 bytes vs whole
    c15_prefix_bulk_c7, "C15", thorough, 12, alloc, 300 => c15::prefix_stable_bulk(7); // '$2' frame + 5 symbolic bytes, prefix of 7 bytes vs whole
    c15_prefix_bulk_c8, "C15", quick, 12, alloc, 300 => c15::prefix_stable_bulk(8); // '$2' frame + 5 symbolic bytes, prefix of 8 bytes vs whole
    c09_twin, "C09", quick, 8, plain, 300 => c09::twin();
    c09_group_commit_2, "C09", quick, 8, plain, 900 => c09::group_commit(2, true); // 2 appends + sync, rotation threshold symbolic in (16,200), symbolic append/fsync/create faults and partial writes
    c09_group_commit_2_nofault, "C09", quick, 8, plain, 600 => c09::group_commit(2, false); // 2 appends + sync, rotation threshold symbolic, no faults (pure rotation case)
    c09_group_commit_3, "C09", thorough, 8, plain, 1800 => c09::group_commit(3, true); // 3 appends + sync, symbolic threshold and faults
    c09_group_commit_3_nofault, "C09", thorough, 8, plain, 1800 => c09::group_commit(3, false); // 3 appends + sync, symbolic threshold, no faults
    c06_twin, "C06", quick, 6, plain, 300 => c06::twin();
    c06_pair_set_set_pre0, "C06", quick, 6, plain, 1500 => c06::pair(0, 0, 0); // A: SET, B: SET on one key, pre-state absent; symbolic clocks and bytes; deltas cross-delivered once
    c06_pair_set_set_pre1, "C06", quick, 6, plain, 1500 => c06::pair(0, 0, 1); // A: SET, B: SET on one key, pre-state common LWW value; symbolic clocks and bytes; deltas cross-delivered once
    c06_pair_set_set_pre2, "C06", thorough, 6, plain, 1500 => c06::pair(0, 0, 2); // A: SET, B: SET on one key, pre-state common hash {f}; symbolic clocks and bytes; deltas cross-delivered once
    c06_pair_set_del_pre0, "C06", thorough, 6, plain, 1500 => c06::pair(0, 1, 0); // A: SET, B: DEL on one key, pre-state absent; symbolic clocks and bytes; deltas cross-delivered once
    c06_pair_set_del_pre1, "C06", quick, 6, plain, 1500 => c06::pair(0, 1, 1); // A: SET, B: DEL on one key, pre-state common LWW value; symbolic clocks and bytes; deltas cross-delivered once
    c06_pair_set_del_pre2, "C06", thorough, 6, plain, 1500 => c06::pair(0, 1, 2); // A: SET, B: DEL on one key, pre-state common hash {f}; symbolic clocks and bytes; deltas cross-delivered once
    c06_pair_set_hset_pre0, "C06", thorough, 6, plain, 1500 => c06::pair(0, 2, 0); // A: SET, B: HSET on one key, pre-state absent; symbolic clocks and bytes; deltas cross-delivered once
    c06_pair_set_hset_pre1, "C06", thorough, 6, plain, 1500 => c06::pair(0, 2, 1); // A: SET, B: HSET on one key, pre-state common LWW value; symbolic clocks and bytes; deltas cross-delivered once
    c06_pair_set_hset_pre2, "C06", thorough, 6, plain, 1500 => c06::pair(0, 2, 2); // A: SET, B: HSET on one key, pre-state common hash {f}; symbolic clocks and bytes; deltas cross-delivered once
    c06_pair_set_hdel_pre0, "C06", thorough, 6, plain, 1500 => c06::pair(0, 3, 0); // A: SET, B: HDEL on one key, pre-state absent; symbolic clocks and bytes; deltas cross-delivered once
    c06_pair_set_hdel_pre1, "C06", thorough, 6, plain, 1500 => c06::pair(0, 3, 1); // A: SET, B: HDEL on one key, pre-state common LWW value; symbolic clocks and bytes; deltas cross-delivered once
    c06_pair_set_hdel_pre2, "C06", thorough, 6, plain, 1500 => c06::pair(0, 3, 2); // A: SET, B: HDEL on one key, pre-state common hash {f}; symbolic clocks and bytes; deltas cross-delivered once
    c06_pair_del_del_pre1, "C06", thorough, 6, plain, 1500 => c06::pair(1, 1, 1); // A: DEL, B: DEL on one key, pre-state common LWW value; symbolic clocks and bytes; deltas cross-delivered once
    c06_pair_del_del_pre2, "C06", thorough, 6, plain, 1500 => c06::pair(1, 1, 2); // A: DEL, B: DEL on one key, pre-state common hash {f}; symbolic clocks and bytes; deltas cross-delivered once
    c06_pair_del_hset_pre0, "C06", thorough, 6, plain, 1500 => c06::pair(1, 2, 0); // A: DEL, B: HSET on one key, pre-state absent; symbolic clocks and bytes; deltas cross-delivered once
    c06_pair_del_hset_pre1, "C06", thorough, 6, plain, 1500 => c06::pair(1, 2, 1); // A: DEL, B: HSET on one key, pre-state common LWW value; symbolic clocks and bytes; deltas cross-delivered once
    c06_pair_del_hset_pre2, "C06", thorough, 6, plain, 1500 => c06::pair(1, 2, 2); // A: DEL, B: HSET on one key, pre-state common hash {f}; symbolic clocks and bytes; deltas cross-delivered once
    c06_pair_del_hdel_pre1, "C06", thorough, 6, plain, 1500 => c06::pair(1, 3, 1); // A: DEL, B: HDEL on one key, pre-state common LWW value; symbolic clocks and bytes; deltas cross-delivered once
    c06_pair_del_hdel_pre2, "C06", thorough, 6, plain, 1500 => c06::pair(1, 3, 2); // A: DEL, B: HDEL on one key, pre-state common hash {f}; symbolic clocks and bytes; deltas cross-delivered once
    c06_pair_hset_hset_pre0, "C06", thorough, 6, plain, 1500 => c06::pair(2, 2, 0); // A: HSET, B: HSET on one key, pre-state absent; symbolic clocks and bytes; deltas cross-delivered once
    c06_pair_hset_hset_pre1, "C06", thorough, 6, plain, 1500 => c06::pair(2, 2, 1); // A: HSET, B: HSET on one key, pre-state common LWW value; symbolic clocks and bytes; deltas cross-delivered once
    c06_pair_hset_hset_pre2, "C06", thorough, 6, plain, 1500 => c06::pair(2, 2, 2); // A: HSET, B: HSET on one key, pre-state common hash {f}; symbolic clocks and bytes; deltas cross-delivered once
    c06_pair_hset_hdel_pre0, "C06", thorough, 6, plain, 1500 => c06::pair(2, 3, 0); // A: HSET, B: HDEL on one key, pre-state absent; symbolic clocks and bytes; deltas cross-delivered once
    c06_pair_hset_hdel_pre1, "C06", thorough, 6, plain, 1500 => c06::pair(2, 3, 1); // A: HSET, B: HDEL on one key, pre-state common LWW value; symbolic clocks and bytes; deltas cross-delivered once
    c06_pair_hset_hdel_pre2, "C06", thorough, 6, plain, 1500 => c06::pair(2, 3, 2); // A: HSET, B: HDEL on one key, pre-state common hash {f}; symbolic clocks and bytes; deltas cross-delivered once
    c06_pair_hdel_hdel_pre1, "C06", thorough, 6, plain, 1500 => c06::pair(3, 3, 1); // A: HDEL, B: HDEL on one key, pre-state common LWW value; symbolic clocks and bytes; deltas cross-delivered once
    c06_pair_hdel_hdel_pre2, "C06", thorough, 6, plain, 1500 => c06::pair(3, 3, 2); // A: HDEL, B: HDEL on one key, pre-state common hash {f}; symbolic clocks and bytes; deltas cross-delivered once
    c06_dup_reorder, "C06", thorough, 6, plain, 1500 => c06::dup_reorder(); // SET/SET with each delta delivered twice
    c03_twin, "C03", quick, 8, hasher, 120 => c03::twin();
    c03_route_l0_n1, "C03", thorough, 8, hasher, 600 => c03::routing_agree(0, 1); // key = 0 symbolic ASCII bytes, 1 shards, transparent hasher
    c03_route_l0_n2, "C03", thorough, 8, hasher, 600 => c03::routing_agree(0, 2); // key = 0 symbolic ASCII bytes, 2 shards, transparent hasher
    c03_route_l0_n3, "C03", quick, 8, hasher, 600 => c03::routing_agree(0, 3); // key = 0 symbolic ASCII bytes, 3 shards, transparent hasher
    c03_route_l0_n16, "C03", thorough, 8, hasher, 600 => c03::routing_agree(0, 16); // key = 0 symbolic ASCII bytes, 16 shards, transparent hasher
    c03_route_l0_n64, "C03", thorough, 8, hasher, 600 => c03::routing_agree(0, 64); // key = 0 symbolic ASCII bytes, 64 shards, transparent hasher
    c03_route_l1_n1, "C03", thorough, 8, hasher, 600 => c03::routing_agree(1, 1); // key = 1 symbolic ASCII bytes, 1 shards, transparent hasher
    c03_route_l1_n2, "C03", thorough, 8, hasher, 600 => c03::routing_agree(1, 2); // key = 1 symbolic ASCII bytes, 2 shards, transparent hasher
    c03_route_l1_n3, "C03", thorough, 8, hasher, 600 => c03::routing_agree(1, 3); // key = 1 symbolic ASCII bytes, 3 shards, transparent hasher
    c03_route_l1_n16, "C03", quick, 8, hasher, 600 => c03::routing_agree(1, 16); // key = 1 symbolic ASCII bytes, 16 shards, transparent hasher
    c03_route_l1_n64, "C03", thorough, 8, hasher, 600 => c03::routing_agree(1, 64); // key = 1 symbolic ASCII bytes, 64 shards, transparent hasher
    c03_route_l2_n1, "C03", thorough, 8, hasher, 600 => c03::routing_agree(2, 1); // key = 2 symbolic ASCII bytes, 1 shards, transparent hasher
    c03_route_l2_n2, "C03", quick, 8, hasher, 600 => c03::routing_agree(2, 2); // key = 2 symbolic ASCII bytes, 2 shards, transparent hasher
    c03_route_l2_n3, "C03", thorough, 8, hasher, 600 => c03::routing_agree(2, 3); // key = 2 symbolic ASCII bytes, 3 shards, transparent hasher
    c03_route_l2_n16, "C03", thorough, 8, hasher, 600 => c03::routing_agree(2, 16); // key = 2 symbolic ASCII bytes, 16 shards, transparent hasher
    c03_route_l2_n64, "C03", thorough, 8, hasher, 600 => c03::routing_agree(2, 64); // key = 2 symbolic ASCII bytes, 64 shards, transparent hasher
    c03_route_l3_n1, "C03", thorough, 8, hasher, 600 => c03::routing_agree(3, 1); // key = 3 symbolic ASCII bytes, 1 shards, transparent hasher
    c03_route_l3_n2, "C03", thorough, 8, hasher, 600 => c03::routing_agree(3, 2); // key = 3 symbolic ASCII bytes, 2 shards, transparent hasher
    c03_route_l3_n3, "C03", thorough, 8, hasher, 600 => c03::routing_agree(3, 3); // key = 3 symbolic ASCII bytes, 3 shards, transparent hasher
    c03_route_l3_n16, "C03", thorough, 8, hasher, 600 => c03::routing_agree(3, 16); // key = 3 symbolic ASCII bytes, 16 shards, transparent hasher
    c03_route_l3_n64, "C03", quick, 8, hasher, 600 => c03::routing_agree(3, 64); // key = 3 symbolic ASCII bytes, 64 shards, transparent hasher
    c03_home_rpoplpush, "C03", quick, 8, hasher, 600 => c03::single_home(0, 2); // RPOPLPUSH with two distinct symbolic 1-byte keys, 2 shards
    c03_home_lmove, "C03", thorough, 8, hasher, 600 => c03::single_home(1, 2); // LMOVE with two distinct symbolic 1-byte keys, 2 shards
    c03_home_rename, "C03", quick, 8, hasher, 600 => c03::single_home(2, 2); // RENAME with two distinct symbolic 1-byte keys, 2 shards
    c03_home_renamenx, "C03", thorough, 8, hasher, 600 => c03::single_home(3, 2); // RENAMENX with two distinct symbolic 1-byte keys, 2 shards
    c03_home_msetnx, "C03", quick, 8, hasher, 600 => c03::single_home(4, 2); // MSETNX with two distinct symbolic 1-byte keys, 2 shards
    c03_home_sortstore, "C03", thorough, 8, hasher, 600 => c03::single_home(5, 2); // SORTSTORE with two distinct symbolic 1-byte keys, 2 shards
    c03_primary_0, "C03", quick, 8, plain, 300 => c03::primary_is_only_key(0); // single-key command: routing key == its key
    c03_primary_1, "C03", quick, 8, plain, 300 => c03::primary_is_only_key(1); // single-key command: routing key == its key
    c03_primary_2, "C03", thorough, 8, plain, 300 => c03::primary_is_only_key(2); // single-key command: routing key == its key
    c03_primary_3, "C03", thorough, 8, plain, 300 => c03::primary_is_only_key(3); // single-key command: routing key == its key
    c03_primary_4, "C03", thorough, 8, plain, 300 => c03::primary_is_only_key(4); // single-key command: routing key == its key
    c03_primary_5, "C03", thorough, 8, plain, 300 => c03::primary_is_only_key(5); // single-key command: routing key == its key
    c03_primary_6, "C03", thorough, 8, plain, 300 => c03::primary_is_only_key(6); // single-key command: routing key == its key
    c03_primary_7, "C03", thorough, 8, plain, 300 => c03::primary_is_only_key(7); // single-key command: routing key == its key
    c03_primary_8, "C03", quick, 8, plain, 300 => c03::primary_is_only_key(8); // single-key command: routing key == its key
    c03_primary_9, "C03", thorough, 8, plain, 300 => c03::primary_is_only_key(9); // single-key command: routing key == its key
    c18_twin, "C18", quick, 8, hasher, 120 => c18::twin();
    c18_bucket_order_2, "C18", quick, 8, hasher, 300 => c18::bucket_order(2); // 2 arbitrary key digests, both orders
    c18_bucket_order_3, "C18", quick, 8, hasher, 600 => c18::bucket_order(3); // 3 arbitrary key digests, all 6 orders
    c18_state_order_d0, "C18", quick, 8, hasher, 900 => c18::state_insertion_order(0); // keys a,b with symbolic LWW values, two insertion orders, 1 bucket
    c18_state_order_d1, "C18", thorough, 8, hasher, 1500 => c18::state_insertion_order(1); // same, 2 buckets
    c18_sound_lww, "C18", quick, 8, hasher, 600 => c18::key_digest_sound(0); // two LWW values of one key with symbolic stamps/bytes/tombstones
    c18_sound_expiry, "C18", quick, 8, hasher, 600 => c18::key_digest_sound(1); // same LWW value, symbolic expiries
    c18_sound_hash, "C18", quick, 8, hasher, 900 => c18::key_digest_sound(2); // hash {f} with equal outer stamp, different field registers
    c19_twin, "C19", quick, 8, plain, 300 => c19::twin();
    c19_from_config_3, "C19", quick, 8, plain, 600 => c19::from_config_ids(3); // 3-node cluster, replica_id symbolic in 1..=3
    c19_from_config_5, "C19", thorough, 8, plain, 1200 => c19::from_config_ids(5); // 5-node cluster, replica_id symbolic in 1..=5
    c15_line_plus_t1_codec, "C15", thorough, 12, alloc, 400 => c15::line(43, 1, 1); // type byte '+' + 1 symbolic bytes, codec decoder
    c15_line_plus_t1_parser, "C15", thorough, 10, alloc, 900 => c15::line(43, 1, 2); // type byte '+' + 1 symbolic bytes, parser decoder
    c15_line_plus_t2_codec, "C15", thorough, 12, alloc, 400 => c15::line(43, 2, 1); // type byte '+' + 2 symbolic bytes, codec decoder
    c15_line_plus_t2_parser, "C15", quick, 10, alloc, 900 => c15::line(43, 2, 2); // type byte '+' + 2 symbolic bytes, parser decoder
    c15_line_plus_t3_codec, "C15", quick, 12, alloc, 400 => c15::line(43, 3, 1); // type byte '+' + 3 symbolic bytes, codec decoder
    c15_line_plus_t3_parser, "C15", thorough, 10, alloc, 900 => c15::line(43, 3, 2); // type byte '+' + 3 symbolic bytes, parser decoder
    c15_line_plus_t4_codec, "C15", thorough, 12, alloc, 400 => c15::line(43, 4, 1); // type byte '+' + 4 symbolic bytes, codec decoder
    c15_line_plus_t4_parser, "C15", thorough, 10, alloc, 900 => c15::line(43, 4, 2); // type byte '+' + 4 symbolic bytes, parser decoder
    c15_line_minus_t1_codec, "C15", thorough, 12, alloc, 400 => c15::line(45, 1, 1); // type byte '-' + 1 symbolic bytes, codec decoder
    c15_line_minus_t1_parser, "C15", thorough, 10, alloc, 900 => c15::line(45, 1, 2); // type byte '-' + 1 symbolic bytes, parser decoder
    c15_line_minus_t2_codec, "C15", quick, 12, alloc, 400 => c15::line(45, 2, 1); // type byte '-' + 2 symbolic bytes, codec decoder
    c15_line_minus_t2_parser, "C15", thorough, 10, alloc, 900 => c15::line(45, 2, 2); // type byte '-' + 2 symbolic bytes, parser decoder
    c15_line_minus_t3_codec, "C15", thorough, 12, alloc, 400 => c15::line(45, 3, 1); // type byte '-' + 3 symbolic bytes, codec decoder
    c15_line_minus_t3_parser, "C15", thorough, 10, alloc, 900 => c15::line(45, 3, 2); // type byte '-' + 3 symbolic bytes, parser decoder
    c15_line_minus_t4_codec, "C15", thorough, 12, alloc, 400 => c15::line(45, 4, 1); // type byte '-' + 4 symbolic bytes, codec decoder
    c15_line_minus_t4_parser, "C15", thorough, 10, alloc, 900 => c15::line(45, 4, 2); // type byte '-' + 4 symbolic bytes, parser decoder
    c15_line_colon_t1_codec, "C15", thorough, 12, alloc, 400 => c15::line(58, 1, 1); // type byte ':' + 1 symbolic bytes, codec decoder
    c15_line_colon_t1_parser, "C15", thorough, 10, alloc, 900 => c15::line(58, 1, 2); // type byte ':' + 1 symbolic bytes, parser decoder
    c15_line_colon_t2_codec, "C15", thorough, 12, alloc, 400 => c15::line(58, 2, 1); // type byte ':' + 2 symbolic bytes, codec decoder
    c15_line_colon_t2_parser, "C15", thorough, 10, alloc, 900 => c15::line(58, 2, 2); // type byte ':' + 2 symbolic bytes, parser decoder
    c15_line_colon_t3_codec, "C15", quick, 12, alloc, 400 => c15::line(58, 3, 1); // type byte ':' + 3 symbolic bytes, codec decoder
    c15_line_colon_t3_parser, "C15", thorough, 10, alloc, 900 => c15::line(58, 3, 2); // type byte ':' + 3 symbolic bytes, parser decoder
    c15_line_colon_t4_codec, "C15", thorough, 12, alloc, 400 => c15::line(58, 4, 1); // type byte ':' + 4 symbolic bytes, codec decoder
    c15_line_colon_t4_parser, "C15", thorough, 10, alloc, 900 => c15::line(58, 4, 2); // type byte ':' + 4 symbolic bytes, parser decoder
}
