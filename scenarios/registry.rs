// name, property, tier, unwind, stub-kind, cap seconds => scenario call
registry! {
    c07_twin,            "C07", quick,    4, plain, 120 => c07::twin();
    c07_lww_comm,        "C07", quick,    4, plain, 180 => c07::lww_commutative();
    c07_lww_idem,        "C07", quick,    4, plain, 180 => c07::lww_idempotent();
    c07_lww_assoc,       "C07", quick,    4, plain, 300 => c07::lww_associative();
}
