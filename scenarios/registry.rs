// name, property, tier, unwind, stub-kind, cap seconds => scenario call
registry! {
    c07_twin,            "C07", quick,    4, plain, 120 => c07::twin();
    c07_lww_comm,        "C07", quick,    4, plain, 180 => c07::lww_commutative();
    c07_lww_idem,        "C07", quick,    4, plain, 180 => c07::lww_idempotent();
    c07_lww_assoc,       "C07", quick,    4, plain, 300 => c07::lww_associative();
    c08_twin,            "C08", quick,    4, plain, 120 => c08::twin();
    c08_reg_step,        "C08", quick,    4, plain, 120 => c08::reg_write_after_observe(); // all stamps < 2^62, 1-byte values
    c08_state_write,     "C08", thorough,    6, plain, 600 => c08::state_step(0); // one key, LWW values, arbitrary I-state + arbitrary remote delta, then record_write
    c08_state_delete,    "C08", thorough,    6, plain, 600 => c08::state_step(1); // same, then record_delete
    c10_twin,            "C10", quick,    8, plain, 120 => c10::twin();
    c10_decode_total_0,  "C10", quick,    20, plain, 120 => c10::decode_total(0); // payload length 0, all other bytes symbolic
    c10_decode_total_1,  "C10", quick,    20, plain, 120 => c10::decode_total(1);
    c10_decode_total_3,  "C10", quick,    20, plain, 180 => c10::decode_total(3);
    c10_roundtrip_0,     "C10", quick,    8, plain, 120 => c10::roundtrip(0);
    c10_roundtrip_2,     "C10", quick,    8, plain, 180 => c10::roundtrip(2);
    c10_roundtrip_4,     "C10", thorough, 8, plain, 600 => c10::roundtrip(4);
    c10_truncation_2,    "C10", quick,    8, plain, 300 => c10::truncation(2);
    c10_bitflip_stamp_2, "C10", quick,    8, plain, 600 => c10::bitflip(2, 1);
    c10_bitflip_crc_2,   "C10", thorough,    8, plain, 600 => c10::bitflip(2, 2);
    c10_bitflip_data_2,  "C10", thorough,    8, plain, 600 => c10::bitflip(2, 3);
    c10_bitflip_len_2,   "C10", quick,    8, plain, 600 => c10::bitflip(2, 0);
    c15_twin, "C15", quick, 12, alloc, 120 => c15::twin();
    c15_bulk_m2_t1, "C15", thorough, 12, alloc, 300 => c15::bulk(b"-2", None, 1); // '$' + length text "-2" + CRLF + 1 symbolic bytes; both decoders
    c15_bulk_m2_t2, "C15", quick, 12, alloc, 1500 => c15::bulk(b"-2", None, 2); // '$' + length text "-2" + CRLF + 2 symbolic bytes; both decoders
    c15_bulk_m1_t0, "C15", quick, 12, alloc, 300 => c15::bulk(b"-1", Some(-1), 0); // '$' + length text "-1" + CRLF + 0 symbolic bytes; both decoders
    c15_bulk_m1_t2, "C15", thorough, 12, alloc, 300 => c15::bulk(b"-1", Some(-1), 2); // '$' + length text "-1" + CRLF + 2 symbolic bytes; both decoders
    c15_bulk_0_t1, "C15", thorough, 12, alloc, 300 => c15::bulk(b"0", Some(0), 1); // '$' + length text "0" + CRLF + 1 symbolic bytes; both decoders
    c15_bulk_0_t2, "C15", quick, 12, alloc, 300 => c15::bulk(b"0", Some(0), 2); // '$' + length text "0" + CRLF + 2 symbolic bytes; both decoders
    c15_bulk_0_t3, "C15", thorough, 12, alloc, 300 => c15::bulk(b"0", Some(0), 3); // '$' + length text "0" + CRLF + 3 symbolic bytes; both decoders
    c15_bulk_1_t2, "C15", thorough, 12, alloc, 300 => c15::bulk(b"1", Some(1), 2); // '$' + length text "1" + CRLF + 2 symbolic bytes; both decoders
    c15_bulk_1_t3, "C15", quick, 12, alloc, 300 => c15::bulk(b"1", Some(1), 3); // '$' + length text "1" + CRLF + 3 symbolic bytes; both decoders
    c15_bulk_1_t4, "C15", thorough, 12, alloc, 300 => c15::bulk(b"1", Some(1), 4); // '$' + length text "1" + CRLF + 4 symbolic bytes; both decoders
    c15_bulk_2_t3, "C15", quick, 12, alloc, 300 => c15::bulk(b"2", Some(2), 3); // '$' + length text "2" + CRLF + 3 symbolic bytes; both decoders
    c15_bulk_2_t4, "C15", quick, 12, alloc, 300 => c15::bulk(b"2", Some(2), 4); // '$' + length text "2" + CRLF + 4 symbolic bytes; both decoders
    c15_bulk_2_t5, "C15", thorough, 12, alloc, 300 => c15::bulk(b"2", Some(2), 5); // '$' + length text "2" + CRLF + 5 symbolic bytes; both decoders
    c15_bulk_3_t4, "C15", thorough, 12, alloc, 300 => c15::bulk(b"3", Some(3), 4); // '$' + length text "3" + CRLF + 4 symbolic bytes; both decoders
    c15_bulk_3_t5, "C15", thorough, 12, alloc, 300 => c15::bulk(b"3", Some(3), 5); // '$' + length text "3" + CRLF + 5 symbolic bytes; both decoders
    c15_bulk_3_t6, "C15", thorough, 12, alloc, 300 => c15::bulk(b"3", Some(3), 6); // '$' + length text "3" + CRLF + 6 symbolic bytes; both decoders
    c15_bulk_2p31_t1, "C15", thorough, 14, alloc, 300 => c15::bulk(b"2147483648", Some(2147483648), 1); // '$' + length text "2147483648" + CRLF + 1 symbolic bytes; both decoders
    c15_bulk_2p31_t2, "C15", thorough, 14, alloc, 300 => c15::bulk(b"2147483648", Some(2147483648), 2); // '$' + length text "2147483648" + CRLF + 2 symbolic bytes; both decoders
    c15_bulk_i64max_t1, "C15", thorough, 26, alloc, 300 => c15::bulk(b"9223372036854775807", Some(9223372036854775807), 1); // '$' + length text "9223372036854775807" + CRLF + 1 symbolic bytes; both decoders
    c15_bulk_i64max_t2, "C15", quick, 26, alloc, 300 => c15::bulk(b"9223372036854775807", Some(9223372036854775807), 2); // '$' + length text "9223372036854775807" + CRLF + 2 symbolic bytes; both decoders
    c15_bulk_u64max_t1, "C15", thorough, 26, alloc, 300 => c15::bulk(b"18446744073709551615", None, 1); // '$' + length text "18446744073709551615" + CRLF + 1 symbolic bytes; both decoders
    c15_bulk_u64max_t2, "C15", thorough, 26, alloc, 300 => c15::bulk(b"18446744073709551615", None, 2); // '$' + length text "18446744073709551615" + CRLF + 2 symbolic bytes; both decoders
    c15_bulk_huge_t1, "C15", quick, 26, alloc, 300 => c15::bulk(b"99999999999999999999", None, 1); // '$' + length text "99999999999999999999" + CRLF + 1 symbolic bytes; both decoders
    c15_bulk_huge_t2, "C15", thorough, 26, alloc, 300 => c15::bulk(b"99999999999999999999", None, 2); // '$' + length text "99999999999999999999" + CRLF + 2 symbolic bytes; both decoders
    c15_bulk_empty_t1, "C15", quick, 12, alloc, 300 => c15::bulk(b"", None, 1); // '$' + length text "" + CRLF + 1 symbolic bytes; both decoders
    c15_bulk_empty_t2, "C15", thorough, 12, alloc, 300 => c15::bulk(b"", None, 2); // '$' + length text "" + CRLF + 2 symbolic bytes; both decoders
    c15_bulk_alpha_t1, "C15", thorough, 12, alloc, 300 => c15::bulk(b"x", None, 1); // '$' + length text "x" + CRLF + 1 symbolic bytes; both decoders
    c15_bulk_alpha_t2, "C15", thorough, 12, alloc, 300 => c15::bulk(b"x", None, 2); // '$' + length text "x" + CRLF + 2 symbolic bytes; both decoders
    c15_array_m2_n0, "C15", thorough, 12, alloc, 300 => c15::array(b"-2", None, 0, false); // '*' + length text "-2" + 0 one-byte bulk elements
    c15_array_m2_n1, "C15", quick, 12, alloc, 1500 => c15::array(b"-2", None, 1, false); // '*' + length text "-2" + 1 one-byte bulk elements
    c15_array_m1_n0, "C15", thorough, 12, alloc, 300 => c15::array(b"-1", Some(-1), 0, false); // '*' + length text "-1" + 0 one-byte bulk elements
    c15_array_m1_n1, "C15", thorough, 12, alloc, 300 => c15::array(b"-1", Some(-1), 1, false); // '*' + length text "-1" + 1 one-byte bulk elements
    c15_array_0_n0, "C15", thorough, 12, alloc, 300 => c15::array(b"0", Some(0), 0, false); // '*' + length text "0" + 0 one-byte bulk elements
    c15_array_0_n1, "C15", thorough, 12, alloc, 300 => c15::array(b"0", Some(0), 1, false); // '*' + length text "0" + 1 one-byte bulk elements
    c15_array_0_n1p, "C15", thorough, 12, alloc, 300 => c15::array(b"0", Some(0), 1, true); // '*' + length text "0" + 1 one-byte bulk elements (last one cut after its header)
    c15_array_0_n2, "C15", thorough, 12, alloc, 300 => c15::array(b"0", Some(0), 2, false); // '*' + length text "0" + 2 one-byte bulk elements
    c15_array_0_n2p, "C15", thorough, 12, alloc, 300 => c15::array(b"0", Some(0), 2, true); // '*' + length text "0" + 2 one-byte bulk elements (last one cut after its header)
    c15_array_1_n0, "C15", thorough, 12, alloc, 300 => c15::array(b"1", Some(1), 0, false); // '*' + length text "1" + 0 one-byte bulk elements
    c15_array_1_n1, "C15", thorough, 12, alloc, 300 => c15::array(b"1", Some(1), 1, false); // '*' + length text "1" + 1 one-byte bulk elements
    c15_array_1_n1p, "C15", thorough, 12, alloc, 300 => c15::array(b"1", Some(1), 1, true); // '*' + length text "1" + 1 one-byte bulk elements (last one cut after its header)
    c15_array_1_n2, "C15", quick, 12, alloc, 300 => c15::array(b"1", Some(1), 2, false); // '*' + length text "1" + 2 one-byte bulk elements
    c15_array_1_n2p, "C15", thorough, 12, alloc, 300 => c15::array(b"1", Some(1), 2, true); // '*' + length text "1" + 2 one-byte bulk elements (last one cut after its header)
    c15_array_2_n0, "C15", thorough, 12, alloc, 300 => c15::array(b"2", Some(2), 0, false); // '*' + length text "2" + 0 one-byte bulk elements
    c15_array_2_n1, "C15", thorough, 12, alloc, 300 => c15::array(b"2", Some(2), 1, false); // '*' + length text "2" + 1 one-byte bulk elements
    c15_array_2_n1p, "C15", thorough, 12, alloc, 300 => c15::array(b"2", Some(2), 1, true); // '*' + length text "2" + 1 one-byte bulk elements (last one cut after its header)
    c15_array_2_n2, "C15", quick, 12, alloc, 300 => c15::array(b"2", Some(2), 2, false); // '*' + length text "2" + 2 one-byte bulk elements
    c15_array_2_n2p, "C15", quick, 12, alloc, 300 => c15::array(b"2", Some(2), 2, true); // '*' + length text "2" + 2 one-byte bulk elements (last one cut after its header)
    c15_array_3_n0, "C15", thorough, 12, alloc, 300 => c15::array(b"3", Some(3), 0, false); // '*' + length text "3" + 0 one-byte bulk elements
    c15_array_3_n1, "C15", thorough, 12, alloc, 300 => c15::array(b"3", Some(3), 1, false); // '*' + length text "3" + 1 one-byte bulk elements
    c15_array_3_n1p, "C15", thorough, 12, alloc, 300 => c15::array(b"3", Some(3), 1, true); // '*' + length text "3" + 1 one-byte bulk elements (last one cut after its header)
    c15_array_3_n2, "C15", thorough, 12, alloc, 300 => c15::array(b"3", Some(3), 2, false); // '*' + length text "3" + 2 one-byte bulk elements
    c15_array_3_n2p, "C15", thorough, 12, alloc, 300 => c15::array(b"3", Some(3), 2, true); // '*' + length text "3" + 2 one-byte bulk elements (last one cut after its header)
    c15_array_2p31_n0, "C15", quick, 14, alloc, 300 => c15::array(b"2147483648", Some(2147483648), 0, false); // '*' + length text "2147483648" + 0 one-byte bulk elements
    c15_array_2p31_n1, "C15", thorough, 14, alloc, 300 => c15::array(b"2147483648", Some(2147483648), 1, false); // '*' + length text "2147483648" + 1 one-byte bulk elements
    c15_array_i64max_n0, "C15", thorough, 26, alloc, 300 => c15::array(b"9223372036854775807", Some(9223372036854775807), 0, false); // '*' + length text "9223372036854775807" + 0 one-byte bulk elements
    c15_array_i64max_n1, "C15", quick, 26, alloc, 300 => c15::array(b"9223372036854775807", Some(9223372036854775807), 1, false); // '*' + length text "9223372036854775807" + 1 one-byte bulk elements
    c15_array_huge_n0, "C15", thorough, 26, alloc, 300 => c15::array(b"99999999999999999999", None, 0, false); // '*' + length text "99999999999999999999" + 0 one-byte bulk elements
    c15_array_huge_n1, "C15", thorough, 26, alloc, 300 => c15::array(b"99999999999999999999", None, 1, false); // '*' + length text "99999999999999999999" + 1 one-byte bulk elements
    c15_prefix_bulk_c1, "C15", thorough, 12, alloc, 300 => c15::prefix_stable_bulk(1); // '$2' frame + 5 symbolic bytes, prefix of 1 bytes vs whole
    c15_prefix_bulk_c3, "C15", thorough, 12, alloc, 300 => c15::prefix_stable_bulk(3); // '$2' frame + 5 symbolic bytes, prefix of 3 bytes vs whole
    c15_prefix_bulk_c4, "C15", quick, 12, alloc, 300 => c15::prefix_stable_bulk(4); // '$2' frame + 5 symbolic bytes, prefix of 4 bytes vs whole
    c15_prefix_bulk_c5, "C15", thorough, 12, alloc, 300 => c15::prefix_stable_bulk(5); // '$2' frame + 5 symbolic bytes, prefix of 5 bytes vs whole
    c15_prefix_bulk_c6, "C15", quick, 12, alloc, 300 => c15::prefix_stable_bulk(6); // '$2' frame + 5 symbolic bytes, prefix of 6 bytes vs whole
    c15_prefix_bulk_c7, "C15", thorough, 12, alloc, 300 => c15::prefix_stable_bulk(7); // '$2' frame + 5 symbolic bytes, prefix of 7 bytes vs whole
    c15_prefix_bulk_c8, "C15", quick, 12, alloc, 300 => c15::prefix_stable_bulk(8); // '$2' frame + 5 symbolic bytes, prefix of 8 bytes vs whole
    c09_twin, "C09", quick, 8, plain, 300 => c09::twin();
    c09_group_commit_2, "C09", quick, 8, plain, 900 => c09::group_commit(2, true); // 2 appends + sync, rotation threshold symbolic in (16,200), symbolic append/fsync/create faults and partial writes
    c09_group_commit_2_nofault, "C09", quick, 8, plain, 600 => c09::group_commit(2, false); // 2 appends + sync, rotation threshold symbolic, no faults (pure rotation case)
    c09_group_commit_3, "C09", thorough, 8, plain, 1800 => c09::group_commit(3, true); // 3 appends + sync, symbolic threshold and faults
    c09_group_commit_3_nofault, "C09", thorough, 8, plain, 1800 => c09::group_commit(3, false); // 3 appends + sync, symbolic threshold, no faults
    c06_twin, "C06", quick, 6, plain, 300 => c06::twin();
    c06_pair_set_set_pre0, "C06", quick, 6, plain, 1500 => c06::pair(0, 0, 0); // A: SET, B: SET on one key, pre-state absent; symbolic clocks and bytes; deltas cross-delivered once
    c06_pair_set_set_pre1, "C06", thorough, 6, plain, 1500 => c06::pair(0, 0, 1); // A: SET, B: SET on one key, pre-state common LWW value; symbolic clocks and bytes; deltas cross-delivered once
    c06_pair_set_set_pre2, "C06", thorough, 6, plain, 1500 => c06::pair(0, 0, 2); // A: SET, B: SET on one key, pre-state common hash {f}; symbolic clocks and bytes; deltas cross-delivered once
    c06_pair_set_del_pre0, "C06", thorough, 6, plain, 1500 => c06::pair(0, 1, 0); // A: SET, B: DEL on one key, pre-state absent; symbolic clocks and bytes; deltas cross-delivered once
    c06_pair_set_del_pre1, "C06", thorough, 6, plain, 1500 => c06::pair(0, 1, 1); // A: SET, B: DEL on one key, pre-state common LWW value; symbolic clocks and bytes; deltas cross-delivered once
    c06_pair_set_del_pre2, "C06", thorough, 6, plain, 1500 => c06::pair(0, 1, 2); // A: SET, B: DEL on one key, pre-state common hash {f}; symbolic clocks and bytes; deltas cross-delivered once
    c06_pair_set_hset_pre0, "C06", thorough, 6, plain, 1500 => c06::pair(0, 2, 0); // A: SET, B: HSET on one key, pre-state absent; symbolic clocks and bytes; deltas cross-delivered once
    c06_pair_set_hset_pre1, "C06", thorough, 6, plain, 1500 => c06::pair(0, 2, 1); // A: SET, B: HSET on one key, pre-state common LWW value; symbolic clocks and bytes; deltas cross-delivered once
    c06_pair_set_hset_pre2, "C06", thorough, 6, plain, 1500 => c06::pair(0, 2, 2); // A: SET, B: HSET on one key, pre-state common hash {f}; symbolic clocks and bytes; deltas cross-delivered once
    c06_pair_set_hdel_pre0, "C06", thorough, 6, plain, 1500 => c06::pair(0, 3, 0); // A: SET, B: HDEL on one key, pre-state absent; symbolic clocks and bytes; deltas cross-delivered once
    c06_pair_set_hdel_pre1, "C06", thorough, 6, plain, 1500 => c06::pair(0, 3, 1); // A: SET, B: HDEL on one key, pre-state common LWW value; symbolic clocks and bytes; deltas cross-delivered once
    c06_pair_set_hdel_pre2, "C06", thorough, 6, plain, 1500 => c06::pair(0, 3, 2); // A: SET, B: HDEL on one key, pre-state common hash {f}; symbolic clocks and bytes; deltas cross-delivered once
    c06_pair_del_del_pre1, "C06", thorough, 6, plain, 1500 => c06::pair(1, 1, 1); // A: DEL, B: DEL on one key, pre-state common LWW value; symbolic clocks and bytes; deltas cross-delivered once
    c06_pair_del_del_pre2, "C06", thorough, 6, plain, 1500 => c06::pair(1, 1, 2); // A: DEL, B: DEL on one key, pre-state common hash {f}; symbolic clocks and bytes; deltas cross-delivered once
    c06_pair_del_hset_pre0, "C06", thorough, 6, plain, 1500 => c06::pair(1, 2, 0); // A: DEL, B: HSET on one key, pre-state absent; symbolic clocks and bytes; deltas cross-delivered once
    c06_pair_del_hset_pre1, "C06", thorough, 6, plain, 1500 => c06::pair(1, 2, 1); // A: DEL, B: HSET on one key, pre-state common LWW value; symbolic clocks and bytes; deltas cross-delivered once
    c06_pair_del_hset_pre2, "C06", thorough, 6, plain, 1500 => c06::pair(1, 2, 2); // A: DEL, B: HSET on one key, pre-state common hash {f}; symbolic clocks and bytes; deltas cross-delivered once
    c06_pair_del_hdel_pre1, "C06", thorough, 6, plain, 1500 => c06::pair(1, 3, 1); // A: DEL, B: HDEL on one key, pre-state common LWW value; symbolic clocks and bytes; deltas cross-delivered once
    c06_pair_del_hdel_pre2, "C06", thorough, 6, plain, 1500 => c06::pair(1, 3, 2); // A: DEL, B: HDEL on one key, pre-state common hash {f}; symbolic clocks and bytes; deltas cross-delivered once
    c06_pair_hset_hset_pre0, "C06", thorough, 6, plain, 1500 => c06::pair(2, 2, 0); // A: HSET, B: HSET on one key, pre-state absent; symbolic clocks and bytes; deltas cross-delivered once
    c06_pair_hset_hset_pre1, "C06", thorough, 6, plain, 1500 => c06::pair(2, 2, 1); // A: HSET, B: HSET on one key, pre-state common LWW value; symbolic clocks and bytes; deltas cross-delivered once
    c06_pair_hset_hset_pre2, "C06", thorough, 6, plain, 1500 => c06::pair(2, 2, 2); // A: HSET, B: HSET on one key, pre-state common hash {f}; symbolic clocks and bytes; deltas cross-delivered once
    c06_pair_hset_hdel_pre0, "C06", thorough, 6, plain, 1500 => c06::pair(2, 3, 0); // A: HSET, B: HDEL on one key, pre-state absent; symbolic clocks and bytes; deltas cross-delivered once
    c06_pair_hset_hdel_pre1, "C06", thorough, 6, plain, 1500 => c06::pair(2, 3, 1); // A: HSET, B: HDEL on one key, pre-state common LWW value; symbolic clocks and bytes; deltas cross-delivered once
    c06_pair_hset_hdel_pre2, "C06", thorough, 6, plain, 1500 => c06::pair(2, 3, 2); // A: HSET, B: HDEL on one key, pre-state common hash {f}; symbolic clocks and bytes; deltas cross-delivered once
    c06_pair_hdel_hdel_pre1, "C06", thorough, 6, plain, 1500 => c06::pair(3, 3, 1); // A: HDEL, B: HDEL on one key, pre-state common LWW value; symbolic clocks and bytes; deltas cross-delivered once
    c06_pair_hdel_hdel_pre2, "C06", thorough, 6, plain, 1500 => c06::pair(3, 3, 2); // A: HDEL, B: HDEL on one key, pre-state common hash {f}; symbolic clocks and bytes; deltas cross-delivered once
    c06_dup_reorder, "C06", thorough, 6, plain, 1500 => c06::dup_reorder(); // SET/SET with each delta delivered twice
    c03_twin, "C03", quick, 12, hasher, 120 => c03::twin();
    c03_route_l0_n1, "C03", thorough, 12, hasher, 600 => c03::routing_agree(0, 1); // key = 0 symbolic ASCII bytes, 1 shards, transparent hasher
    c03_route_l0_n2, "C03", thorough, 12, hasher, 600 => c03::routing_agree(0, 2); // key = 0 symbolic ASCII bytes, 2 shards, transparent hasher
    c03_route_l0_n3, "C03", thorough, 12, hasher, 600 => c03::routing_agree(0, 3); // key = 0 symbolic ASCII bytes, 3 shards, transparent hasher
    c03_route_l0_n16, "C03", thorough, 12, hasher, 600 => c03::routing_agree(0, 16); // key = 0 symbolic ASCII bytes, 16 shards, transparent hasher
    c03_route_l0_n64, "C03", thorough, 12, hasher, 600 => c03::routing_agree(0, 64); // key = 0 symbolic ASCII bytes, 64 shards, transparent hasher
    c03_route_l1_n1, "C03", thorough, 12, hasher, 600 => c03::routing_agree(1, 1); // key = 1 symbolic ASCII bytes, 1 shards, transparent hasher
    c03_route_l1_n2, "C03", thorough, 12, hasher, 600 => c03::routing_agree(1, 2); // key = 1 symbolic ASCII bytes, 2 shards, transparent hasher
    c03_route_l1_n3, "C03", quick, 12, hasher, 600 => c03::routing_agree(1, 3); // key = 1 symbolic ASCII bytes, 3 shards, transparent hasher
    c03_route_l1_n16, "C03", quick, 12, hasher, 600 => c03::routing_agree(1, 16); // key = 1 symbolic ASCII bytes, 16 shards, transparent hasher
    c03_route_l1_n64, "C03", thorough, 12, hasher, 600 => c03::routing_agree(1, 64); // key = 1 symbolic ASCII bytes, 64 shards, transparent hasher
    c03_route_l2_n1, "C03", thorough, 12, hasher, 600 => c03::routing_agree(2, 1); // key = 2 symbolic ASCII bytes, 1 shards, transparent hasher
    c03_route_l2_n2, "C03", quick, 12, hasher, 600 => c03::routing_agree(2, 2); // key = 2 symbolic ASCII bytes, 2 shards, transparent hasher
    c03_route_l2_n3, "C03", thorough, 12, hasher, 600 => c03::routing_agree(2, 3); // key = 2 symbolic ASCII bytes, 3 shards, transparent hasher
    c03_route_l2_n16, "C03", thorough, 12, hasher, 600 => c03::routing_agree(2, 16); // key = 2 symbolic ASCII bytes, 16 shards, transparent hasher
    c03_route_l2_n64, "C03", thorough, 12, hasher, 600 => c03::routing_agree(2, 64); // key = 2 symbolic ASCII bytes, 64 shards, transparent hasher
    c03_route_l3_n1, "C03", thorough, 12, hasher, 600 => c03::routing_agree(3, 1); // key = 3 symbolic ASCII bytes, 1 shards, transparent hasher
    c03_route_l3_n2, "C03", thorough, 12, hasher, 600 => c03::routing_agree(3, 2); // key = 3 symbolic ASCII bytes, 2 shards, transparent hasher
    c03_route_l3_n3, "C03", thorough, 12, hasher, 600 => c03::routing_agree(3, 3); // key = 3 symbolic ASCII bytes, 3 shards, transparent hasher
    c03_route_l3_n16, "C03", thorough, 12, hasher, 600 => c03::routing_agree(3, 16); // key = 3 symbolic ASCII bytes, 16 shards, transparent hasher
    c03_route_l3_n64, "C03", quick, 12, hasher, 600 => c03::routing_agree(3, 64); // key = 3 symbolic ASCII bytes, 64 shards, transparent hasher
    c03_home_rpoplpush, "C03", quick, 12, hasher, 600 => c03::single_home(0, 2); // RPOPLPUSH with two distinct symbolic 1-byte keys, 2 shards
    c03_home_lmove, "C03", thorough, 12, hasher, 600 => c03::single_home(1, 2); // LMOVE with two distinct symbolic 1-byte keys, 2 shards
    c03_home_rename, "C03", quick, 12, hasher, 600 => c03::single_home(2, 2); // RENAME with two distinct symbolic 1-byte keys, 2 shards
    c03_home_renamenx, "C03", thorough, 12, hasher, 600 => c03::single_home(3, 2); // RENAMENX with two distinct symbolic 1-byte keys, 2 shards
    c03_home_msetnx, "C03", quick, 12, hasher, 600 => c03::single_home(4, 2); // MSETNX with two distinct symbolic 1-byte keys, 2 shards
    c03_home_sortstore, "C03", thorough, 12, hasher, 600 => c03::single_home(5, 2); // SORTSTORE with two distinct symbolic 1-byte keys, 2 shards
    c03_primary_0, "C03", quick, 8, plain, 300 => c03::primary_is_only_key(0); // single-key command: routing key == its key
    c03_primary_1, "C03", thorough, 8, plain, 300 => c03::primary_is_only_key(1); // single-key command: routing key == its key
    c03_primary_2, "C03", quick, 8, plain, 300 => c03::primary_is_only_key(2); // single-key command: routing key == its key
    c03_primary_3, "C03", thorough, 8, plain, 300 => c03::primary_is_only_key(3); // single-key command: routing key == its key
    c03_primary_4, "C03", thorough, 8, plain, 300 => c03::primary_is_only_key(4); // single-key command: routing key == its key
    c03_primary_5, "C03", thorough, 8, plain, 300 => c03::primary_is_only_key(5); // single-key command: routing key == its key
    c03_primary_6, "C03", thorough, 8, plain, 300 => c03::primary_is_only_key(6); // single-key command: routing key == its key
    c03_primary_7, "C03", thorough, 8, plain, 300 => c03::primary_is_only_key(7); // single-key command: routing key == its key
    c03_primary_8, "C03", quick, 8, plain, 300 => c03::primary_is_only_key(8); // single-key command: routing key == its key
    c03_primary_9, "C03", thorough, 8, plain, 300 => c03::primary_is_only_key(9); // single-key command: routing key == its key
    c18_twin, "C18", quick, 12, hasher, 120 => c18::twin();
    c18_bucket_order_2, "C18", quick, 12, hasher, 300 => c18::bucket_order(2); // 2 arbitrary key digests, both orders
    c18_bucket_order_3, "C18", thorough, 12, hasher, 600 => c18::bucket_order(3); // 3 arbitrary key digests, all 6 orders
    c18_state_order_d0, "C18", thorough, 12, hasher, 900 => c18::state_insertion_order(0); // keys a,b with symbolic LWW values, two insertion orders, 1 bucket
    c18_state_order_d1, "C18", thorough, 12, hasher, 1500 => c18::state_insertion_order(1); // same, 2 buckets
    c18_sound_lww, "C18", quick, 52, hasher, 600 => c18::key_digest_sound(0); // two LWW values of one key with symbolic stamps/bytes/tombstones
    c18_sound_expiry, "C18", quick, 52, hasher, 600 => c18::key_digest_sound(1); // same LWW value, symbolic expiries
    c18_sound_hash, "C18", quick, 52, hasher, 900 => c18::key_digest_sound(2); // hash {f} with equal outer stamp, different field registers
    c19_twin, "C19", quick, 8, plain, 300 => c19::twin();
    c19_from_config_3, "C19", quick, 8, plain, 600 => c19::from_config_ids(3); // 3-node cluster, replica_id symbolic in 1..=3
    c19_from_config_5, "C19", thorough, 8, plain, 1200 => c19::from_config_ids(5); // 5-node cluster, replica_id symbolic in 1..=5
    c15_line_plus_t1_codec, "C15", thorough, 12, alloc, 400 => c15::line(43, 1, 1); // type byte '+' + 1 symbolic bytes, codec decoder
    c15_line_plus_t1_parser, "C15", thorough, 10, alloc, 900 => c15::line(43, 1, 2); // type byte '+' + 1 symbolic bytes, parser decoder
    c15_line_plus_t2_codec, "C15", thorough, 12, alloc, 400 => c15::line(43, 2, 1); // type byte '+' + 2 symbolic bytes, codec decoder
    c15_line_plus_t2_parser, "C15", quick, 10, alloc, 900 => c15::line(43, 2, 2); // type byte '+' + 2 symbolic bytes, parser decoder
    c15_line_plus_t3_codec, "C15", quick, 12, alloc, 400 => c15::line(43, 3, 1); // type byte '+' + 3 symbolic bytes, codec decoder
    c15_line_plus_t3_parser, "C15", thorough, 10, alloc, 900 => c15::line(43, 3, 2); // type byte '+' + 3 symbolic bytes, parser decoder
    c15_line_plus_t4_codec, "C15", thorough, 12, alloc, 400 => c15::line(43, 4, 1); // type byte '+' + 4 symbolic bytes, codec decoder
    c15_line_plus_t4_parser, "C15", thorough, 10, alloc, 900 => c15::line(43, 4, 2); // type byte '+' + 4 symbolic bytes, parser decoder
    c15_line_minus_t1_codec, "C15", thorough, 12, alloc, 400 => c15::line(45, 1, 1); // type byte '-' + 1 symbolic bytes, codec decoder
    c15_line_minus_t1_parser, "C15", thorough, 10, alloc, 900 => c15::line(45, 1, 2); // type byte '-' + 1 symbolic bytes, parser decoder
    c15_line_minus_t2_codec, "C15", quick, 12, alloc, 400 => c15::line(45, 2, 1); // type byte '-' + 2 symbolic bytes, codec decoder
    c15_line_minus_t2_parser, "C15", thorough, 10, alloc, 900 => c15::line(45, 2, 2); // type byte '-' + 2 symbolic bytes, parser decoder
    c15_line_minus_t3_codec, "C15", thorough, 12, alloc, 400 => c15::line(45, 3, 1); // type byte '-' + 3 symbolic bytes, codec decoder
    c15_line_minus_t3_parser, "C15", thorough, 10, alloc, 900 => c15::line(45, 3, 2); // type byte '-' + 3 symbolic bytes, parser decoder
    c15_line_minus_t4_codec, "C15", thorough, 12, alloc, 400 => c15::line(45, 4, 1); // type byte '-' + 4 symbolic bytes, codec decoder
    c15_line_minus_t4_parser, "C15", thorough, 10, alloc, 900 => c15::line(45, 4, 2); // type byte '-' + 4 symbolic bytes, parser decoder
    c15_line_colon_t1_codec, "C15", thorough, 12, alloc, 400 => c15::line(58, 1, 1); // type byte ':' + 1 symbolic bytes, codec decoder
    c15_line_colon_t1_parser, "C15", thorough, 10, alloc, 900 => c15::line(58, 1, 2); // type byte ':' + 1 symbolic bytes, parser decoder
    c15_line_colon_t2_codec, "C15", thorough, 12, alloc, 400 => c15::line(58, 2, 1); // type byte ':' + 2 symbolic bytes, codec decoder
    c15_line_colon_t2_parser, "C15", thorough, 10, alloc, 900 => c15::line(58, 2, 2); // type byte ':' + 2 symbolic bytes, parser decoder
    c15_line_colon_t3_codec, "C15", thorough, 12, alloc, 400 => c15::line(58, 3, 1); // type byte ':' + 3 symbolic bytes, codec decoder
    c15_line_colon_t3_parser, "C15", thorough, 10, alloc, 900 => c15::line(58, 3, 2); // type byte ':' + 3 symbolic bytes, parser decoder
    c15_line_colon_t4_codec, "C15", thorough, 12, alloc, 400 => c15::line(58, 4, 1); // type byte ':' + 4 symbolic bytes, codec decoder
    c15_line_colon_t4_parser, "C15", thorough, 10, alloc, 900 => c15::line(58, 4, 2); // type byte ':' + 4 symbolic bytes, parser decoder
    c01_twin, "C01", quick, 6, plain, 600 => c01::twin();
    c01_list_get_0, "C01", thorough, 6, plain, 900 => c01::list_get(0); // LINDEX kernel, list of 0 symbolic bytes, index = any isize
    c01_list_range_0, "C01", thorough, 6, plain, 1800 => c01::list_range(0); // LRANGE kernel, list of 0, start/stop = any isize pair
    c01_list_trim_0, "C01", thorough, 6, plain, 1800 => c01::list_trim(0); // LTRIM kernel, list of 0, start/stop = any isize pair
    c01_getrange_0, "C01", thorough, 6, plain, 1800 => c01::getrange(0); // GETRANGE on a 0-byte string, start/end = any isize pair
    c01_list_get_1, "C01", quick, 6, plain, 900 => c01::list_get(1); // LINDEX kernel, list of 1 symbolic bytes, index = any isize
    c01_list_range_1, "C01", thorough, 6, plain, 1800 => c01::list_range(1); // LRANGE kernel, list of 1, start/stop = any isize pair
    c01_list_trim_1, "C01", thorough, 6, plain, 1800 => c01::list_trim(1); // LTRIM kernel, list of 1, start/stop = any isize pair
    c01_list_set_1, "C01", thorough, 6, plain, 1800 => c01::list_set(1); // LSET kernel, list of 1, index = any isize
    c01_getrange_1, "C01", thorough, 6, plain, 1800 => c01::getrange(1); // GETRANGE on a 1-byte string, start/end = any isize pair
    c01_list_get_2, "C01", thorough, 6, plain, 900 => c01::list_get(2); // LINDEX kernel, list of 2 symbolic bytes, index = any isize
    c01_list_range_2, "C01", quick, 6, plain, 1800 => c01::list_range(2); // LRANGE kernel, list of 2, start/stop = any isize pair
    c01_list_trim_2, "C01", thorough, 6, plain, 1800 => c01::list_trim(2); // LTRIM kernel, list of 2, start/stop = any isize pair
    c01_list_set_2, "C01", quick, 6, plain, 1800 => c01::list_set(2); // LSET kernel, list of 2, index = any isize
    c01_getrange_2, "C01", quick, 6, plain, 1800 => c01::getrange(2); // GETRANGE on a 2-byte string, start/end = any isize pair
    c01_list_get_3, "C01", quick, 6, plain, 900 => c01::list_get(3); // LINDEX kernel, list of 3 symbolic bytes, index = any isize
    c01_list_range_3, "C01", thorough, 6, plain, 1800 => c01::list_range(3); // LRANGE kernel, list of 3, start/stop = any isize pair
    c01_list_trim_3, "C01", thorough, 6, plain, 1800 => c01::list_trim(3); // LTRIM kernel, list of 3, start/stop = any isize pair
    c01_list_set_3, "C01", thorough, 6, plain, 1800 => c01::list_set(3); // LSET kernel, list of 3, index = any isize
    c01_getrange_3, "C01", thorough, 6, plain, 1800 => c01::getrange(3); // GETRANGE on a 3-byte string, start/end = any isize pair
    c01_set_px, "C01", quick, 6, plain, 1200 => c01::set_px_then_observe(); // SET PX: px = any i64, now, dt < 2^40; then GET/TTL/PTTL
    c01_set_ex, "C01", thorough, 6, plain, 1500 => c01::set_ex_then_observe(); // SET EX: s = any i64
    c01_expire_opts, "C01", quick, 6, plain, 1500 => c01::expire_options(1000); // EXPIRE none|NX|XX|GT|LT, seconds = any i64, optional existing deadline
    c01_pexpire_opts, "C01", thorough, 6, plain, 1500 => c01::expire_options(1); // PEXPIRE none|NX|XX|GT|LT, ms = any i64
    c01_active_eviction, "C01", quick, 6, plain, 900 => c01::active_eviction(); // set_time(t) vs deadline d, all t,d
    c01_empty_lpop, "C01", quick, 6, plain, 1200 => c01::empty_collection_removed(0); // LPOP of the last / not the last element
    c01_empty_rpop, "C01", thorough, 6, plain, 1200 => c01::empty_collection_removed(1); // RPOP of the last / not the last element
    c01_empty_ltrim, "C01", thorough, 6, plain, 1200 => c01::empty_collection_removed(2); // LTRIM of the last / not the last element
    c01_empty_srem, "C01", quick, 6, plain, 1200 => c01::empty_collection_removed(3); // SREM of the last / not the last element
    c01_empty_hdel, "C01", thorough, 6, plain, 1200 => c01::empty_collection_removed(4); // HDEL of the last / not the last element
    c01_empty_zrem, "C01", thorough, 6, plain, 1200 => c01::empty_collection_removed(5); // ZREM of the last / not the last element
    c17_twin, "C17", quick, 6, plain, 900 => c17::twin();
    c17_wrongtype_incrby_list, "C17", quick, 6, plain, 1500 => c17::wrong_type(0); // 4-key world of every type, symbolic arguments
    c17_wrongtype_append_hash, "C17", thorough, 6, plain, 1500 => c17::wrong_type(1); // 4-key world of every type, symbolic arguments
    c17_wrongtype_getrange_list, "C17", thorough, 6, plain, 1500 => c17::wrong_type(2); // 4-key world of every type, symbolic arguments
    c17_wrongtype_setrange_set, "C17", thorough, 6, plain, 1500 => c17::wrong_type(3); // 4-key world of every type, symbolic arguments
    c17_wrongtype_lpush_string, "C17", quick, 6, plain, 1500 => c17::wrong_type(4); // 4-key world of every type, symbolic arguments
    c17_wrongtype_lset_string, "C17", thorough, 6, plain, 1500 => c17::wrong_type(5); // 4-key world of every type, symbolic arguments
    c17_wrongtype_hset_list, "C17", thorough, 6, plain, 1500 => c17::wrong_type(6); // 4-key world of every type, symbolic arguments
    c17_wrongtype_sadd_hash, "C17", thorough, 6, plain, 1500 => c17::wrong_type(7); // 4-key world of every type, symbolic arguments
    c17_wrongtype_hincrby_string, "C17", thorough, 6, plain, 1500 => c17::wrong_type(8); // 4-key world of every type, symbolic arguments
    c17_wrongtype_lpop_hash, "C17", thorough, 6, plain, 1500 => c17::wrong_type(9); // 4-key world of every type, symbolic arguments
    c17_wrongtype_getset_list, "C17", thorough, 6, plain, 1500 => c17::wrong_type(10); // 4-key world of every type, symbolic arguments
    c17_wrongtype_setget_list, "C17", quick, 6, plain, 1500 => c17::wrong_type(11); // 4-key world of every type, symbolic arguments
    c17_wrongtype_rpoplpush_to_string, "C17", thorough, 6, plain, 1500 => c17::wrong_type(12); // 4-key world of every type, symbolic arguments
    c17_wrongtype_strlen_set, "C17", thorough, 6, plain, 1500 => c17::wrong_type(13); // 4-key world of every type, symbolic arguments
    c17_badargs_incr_overflow, "C17", quick, 24, plain, 1500 => c17::bad_args(0); // right-typed key, failing symbolic arguments
    c17_badargs_incr_nonnumber, "C17", thorough, 24, plain, 1500 => c17::bad_args(1); // right-typed key, failing symbolic arguments
    c17_badargs_lset_range, "C17", quick, 24, plain, 1500 => c17::bad_args(2); // right-typed key, failing symbolic arguments
    c17_badargs_setrange_huge, "C17", thorough, 24, plain, 1500 => c17::bad_args(3); // right-typed key, failing symbolic arguments
    c17_badargs_set_badpx, "C17", thorough, 24, plain, 1500 => c17::bad_args(4); // right-typed key, failing symbolic arguments
    c17_badargs_expire_range, "C17", thorough, 24, plain, 1500 => c17::bad_args(5); // right-typed key, failing symbolic arguments
    c17_badargs_hincrby_nonnumber, "C17", thorough, 24, plain, 1500 => c17::bad_args(6); // right-typed key, failing symbolic arguments
    c17_readonly_get, "C17", quick, 6, plain, 1500 => c17::read_only(0); // read-only op on a symbolic key of any type or a missing key
    c17_readonly_strlen, "C17", thorough, 6, plain, 1500 => c17::read_only(1); // read-only op on a symbolic key of any type or a missing key
    c17_readonly_getrange, "C17", thorough, 6, plain, 1500 => c17::read_only(2); // read-only op on a symbolic key of any type or a missing key
    c17_readonly_llen, "C17", thorough, 6, plain, 1500 => c17::read_only(3); // read-only op on a symbolic key of any type or a missing key
    c17_readonly_lindex, "C17", thorough, 6, plain, 1500 => c17::read_only(4); // read-only op on a symbolic key of any type or a missing key
    c17_readonly_lrange, "C17", quick, 6, plain, 1500 => c17::read_only(5); // read-only op on a symbolic key of any type or a missing key
    c17_readonly_hget, "C17", thorough, 6, plain, 1500 => c17::read_only(6); // read-only op on a symbolic key of any type or a missing key
    c17_readonly_hlen, "C17", thorough, 6, plain, 1500 => c17::read_only(7); // read-only op on a symbolic key of any type or a missing key
    c17_readonly_scard, "C17", thorough, 6, plain, 1500 => c17::read_only(8); // read-only op on a symbolic key of any type or a missing key
    c17_readonly_ttl, "C17", quick, 6, plain, 1500 => c17::read_only(9); // read-only op on a symbolic key of any type or a missing key
    c17_readonly_pttl, "C17", thorough, 6, plain, 1500 => c17::read_only(10); // read-only op on a symbolic key of any type or a missing key
    c17_readonly_type, "C17", thorough, 6, plain, 1500 => c17::read_only(11); // read-only op on a symbolic key of any type or a missing key
    c17_readonly_exists, "C17", thorough, 6, plain, 1500 => c17::read_only(12); // read-only op on a symbolic key of any type or a missing key
    c04_twin, "C04", quick, 16, alloc, 300 => c04::twin();
    c04_get_1_collect, "C04", quick, 16, alloc, 900 => c04::get_frame(b"1", Some(1), 1, false, false, 0); // GET frame, declared length text "1", 1 key byte(s), symbolic separators; batch collector
    c04_get_1_fast, "C04", quick, 16, alloc, 900 => c04::get_frame(b"1", Some(1), 1, false, false, 1); // GET frame, declared length text "1", 1 key byte(s), symbolic separators; fast-path parser
    c04_get_1_2nd_collect, "C04", thorough, 16, alloc, 900 => c04::get_frame(b"1", Some(1), 1, true, false, 0); // GET frame, declared length text "1", 1 key byte(s), symbolic separators, then a second GET; batch collector
    c04_get_2_collect, "C04", thorough, 16, alloc, 900 => c04::get_frame(b"2", Some(2), 2, false, false, 0); // GET frame, declared length text "2", 2 key byte(s), symbolic separators; batch collector
    c04_get_2_fast, "C04", thorough, 16, alloc, 900 => c04::get_frame(b"2", Some(2), 2, false, false, 1); // GET frame, declared length text "2", 2 key byte(s), symbolic separators; fast-path parser
    c04_get_2_2nd_collect, "C04", quick, 16, alloc, 900 => c04::get_frame(b"2", Some(2), 2, true, false, 0); // GET frame, declared length text "2", 2 key byte(s), symbolic separators, then a second GET; batch collector
    c04_get_0_collect, "C04", thorough, 16, alloc, 900 => c04::get_frame(b"0", Some(0), 0, false, false, 0); // GET frame, declared length text "0", 0 key byte(s), symbolic separators; batch collector
    c04_get_0_fast, "C04", thorough, 16, alloc, 900 => c04::get_frame(b"0", Some(0), 0, false, false, 1); // GET frame, declared length text "0", 0 key byte(s), symbolic separators; fast-path parser
    c04_get_0_2nd_collect, "C04", thorough, 16, alloc, 900 => c04::get_frame(b"0", Some(0), 0, true, false, 0); // GET frame, declared length text "0", 0 key byte(s), symbolic separators, then a second GET; batch collector
    c04_get_2for1_collect, "C04", thorough, 16, alloc, 900 => c04::get_frame(b"2", Some(2), 1, false, false, 0); // GET frame, declared length text "2", 1 key byte(s), symbolic separators; batch collector
    c04_get_2for1_fast, "C04", thorough, 16, alloc, 900 => c04::get_frame(b"2", Some(2), 1, false, false, 1); // GET frame, declared length text "2", 1 key byte(s), symbolic separators; fast-path parser
    c04_get_2for1_2nd_collect, "C04", quick, 16, alloc, 900 => c04::get_frame(b"2", Some(2), 1, true, false, 0); // GET frame, declared length text "2", 1 key byte(s), symbolic separators, then a second GET; batch collector
    c04_get_0for1_collect, "C04", thorough, 16, alloc, 900 => c04::get_frame(b"0", Some(0), 1, false, false, 0); // GET frame, declared length text "0", 1 key byte(s), symbolic separators; batch collector
    c04_get_0for1_fast, "C04", thorough, 16, alloc, 900 => c04::get_frame(b"0", Some(0), 1, false, false, 1); // GET frame, declared length text "0", 1 key byte(s), symbolic separators; fast-path parser
    c04_get_0for1_2nd_collect, "C04", thorough, 16, alloc, 900 => c04::get_frame(b"0", Some(0), 1, true, false, 0); // GET frame, declared length text "0", 1 key byte(s), symbolic separators, then a second GET; batch collector
    c04_get_plus1_collect, "C04", thorough, 16, alloc, 900 => c04::get_frame(b"+1", Some(1), 1, false, false, 0); // GET frame, declared length text "+1", 1 key byte(s), symbolic separators; batch collector
    c04_get_plus1_fast, "C04", thorough, 16, alloc, 900 => c04::get_frame(b"+1", Some(1), 1, false, false, 1); // GET frame, declared length text "+1", 1 key byte(s), symbolic separators; fast-path parser
    c04_get_plus1_2nd_collect, "C04", thorough, 16, alloc, 900 => c04::get_frame(b"+1", Some(1), 1, true, false, 0); // GET frame, declared length text "+1", 1 key byte(s), symbolic separators, then a second GET; batch collector
    c04_get_neg1_collect, "C04", thorough, 16, alloc, 900 => c04::get_frame(b"-1", None, 1, false, false, 0); // GET frame, declared length text "-1", 1 key byte(s), symbolic separators; batch collector
    c04_get_neg1_fast, "C04", thorough, 16, alloc, 900 => c04::get_frame(b"-1", None, 1, false, false, 1); // GET frame, declared length text "-1", 1 key byte(s), symbolic separators; fast-path parser
    c04_get_neg1_2nd_collect, "C04", thorough, 16, alloc, 900 => c04::get_frame(b"-1", None, 1, true, false, 0); // GET frame, declared length text "-1", 1 key byte(s), symbolic separators, then a second GET; batch collector
    c04_get_empty_collect, "C04", thorough, 16, alloc, 900 => c04::get_frame(b"", None, 1, false, false, 0); // GET frame, declared length text "", 1 key byte(s), symbolic separators; batch collector
    c04_get_empty_fast, "C04", thorough, 16, alloc, 900 => c04::get_frame(b"", None, 1, false, false, 1); // GET frame, declared length text "", 1 key byte(s), symbolic separators; fast-path parser
    c04_get_empty_2nd_collect, "C04", thorough, 16, alloc, 900 => c04::get_frame(b"", None, 1, true, false, 0); // GET frame, declared length text "", 1 key byte(s), symbolic separators, then a second GET; batch collector
    c04_get_2p31_collect, "C04", thorough, 26, alloc, 900 => c04::get_frame(b"2147483648", None, 1, false, false, 0); // GET frame, declared length text "2147483648", 1 key byte(s), symbolic separators; batch collector
    c04_get_2p31_fast, "C04", thorough, 26, alloc, 900 => c04::get_frame(b"2147483648", None, 1, false, false, 1); // GET frame, declared length text "2147483648", 1 key byte(s), symbolic separators; fast-path parser
    c04_get_2p31_2nd_collect, "C04", thorough, 26, alloc, 900 => c04::get_frame(b"2147483648", None, 1, true, false, 0); // GET frame, declared length text "2147483648", 1 key byte(s), symbolic separators, then a second GET; batch collector
    c04_get_usizemax_collect, "C04", quick, 26, alloc, 900 => c04::get_frame(b"18446744073709551615", None, 1, false, false, 0); // GET frame, declared length text "18446744073709551615", 1 key byte(s), symbolic separators; batch collector
    c04_get_usizemax_fast, "C04", quick, 26, alloc, 900 => c04::get_frame(b"18446744073709551615", None, 1, false, false, 1); // GET frame, declared length text "18446744073709551615", 1 key byte(s), symbolic separators; fast-path parser
    c04_get_usizemax_2nd_collect, "C04", thorough, 26, alloc, 900 => c04::get_frame(b"18446744073709551615", None, 1, true, false, 0); // GET frame, declared length text "18446744073709551615", 1 key byte(s), symbolic separators, then a second GET; batch collector
    c04_get_huge_collect, "C04", thorough, 26, alloc, 900 => c04::get_frame(b"99999999999999999999", None, 1, false, false, 0); // GET frame, declared length text "99999999999999999999", 1 key byte(s), symbolic separators; batch collector
    c04_get_huge_fast, "C04", thorough, 26, alloc, 900 => c04::get_frame(b"99999999999999999999", None, 1, false, false, 1); // GET frame, declared length text "99999999999999999999", 1 key byte(s), symbolic separators; fast-path parser
    c04_get_huge_2nd_collect, "C04", thorough, 26, alloc, 900 => c04::get_frame(b"99999999999999999999", None, 1, true, false, 0); // GET frame, declared length text "99999999999999999999", 1 key byte(s), symbolic separators, then a second GET; batch collector
    c04_get_lower_collect, "C04", thorough, 16, alloc, 900 => c04::get_frame(b"1", Some(1), 1, false, true, 0); // lower-case get
    c04_get_incomplete_5, "C04", thorough, 16, alloc, 600 => c04::get_incomplete(5); // well-formed GET cut after 5 of 22 bytes
    c04_get_incomplete_14, "C04", thorough, 16, alloc, 600 => c04::get_incomplete(14); // well-formed GET cut after 14 of 22 bytes
    c04_get_incomplete_15, "C04", quick, 16, alloc, 600 => c04::get_incomplete(15); // well-formed GET cut after 15 of 22 bytes
    c04_get_incomplete_17, "C04", thorough, 16, alloc, 600 => c04::get_incomplete(17); // well-formed GET cut after 17 of 22 bytes
    c04_get_incomplete_18, "C04", thorough, 16, alloc, 600 => c04::get_incomplete(18); // well-formed GET cut after 18 of 22 bytes
    c04_get_incomplete_20, "C04", quick, 16, alloc, 600 => c04::get_incomplete(20); // well-formed GET cut after 20 of 22 bytes
    c04_get_incomplete_21, "C04", thorough, 16, alloc, 600 => c04::get_incomplete(21); // well-formed GET cut after 21 of 22 bytes
    c04_set_k1v1_collect, "C04", quick, 16, alloc, 1200 => c04::set_frame(1, 1, 0); // SET frame with symbolic separators
    c04_set_k1v1_fast, "C04", quick, 16, alloc, 1200 => c04::set_frame(1, 1, 1); // SET frame with symbolic separators
    c04_set_k1v2_collect, "C04", thorough, 16, alloc, 1200 => c04::set_frame(1, 2, 0); // SET frame with symbolic separators
    c04_set_k1v2_fast, "C04", thorough, 16, alloc, 1200 => c04::set_frame(1, 2, 1); // SET frame with symbolic separators
    c04_set_k2v1_collect, "C04", thorough, 16, alloc, 1200 => c04::set_frame(2, 1, 0); // SET frame with symbolic separators
    c04_set_k2v1_fast, "C04", thorough, 16, alloc, 1200 => c04::set_frame(2, 1, 1); // SET frame with symbolic separators
    c04_set_k2v2_collect, "C04", thorough, 16, alloc, 1200 => c04::set_frame(2, 2, 0); // SET frame with symbolic separators
    c04_set_k2v2_fast, "C04", thorough, 16, alloc, 1200 => c04::set_frame(2, 2, 1); // SET frame with symbolic separators
    c04_segment_1, "C04", thorough, 16, alloc, 900 => c04::segmentation(1); // SET k v + GET k (symbolic bytes) read in two chunks split after 1 bytes
    c04_segment_4, "C04", thorough, 16, alloc, 900 => c04::segmentation(4); // SET k v + GET k (symbolic bytes) read in two chunks split after 4 bytes
    c04_segment_9, "C04", thorough, 16, alloc, 900 => c04::segmentation(9); // SET k v + GET k (symbolic bytes) read in two chunks split after 9 bytes
    c04_segment_13, "C04", thorough, 16, alloc, 900 => c04::segmentation(13); // SET k v + GET k (symbolic bytes) read in two chunks split after 13 bytes
    c04_segment_14, "C04", quick, 16, alloc, 900 => c04::segmentation(14); // SET k v + GET k (symbolic bytes) read in two chunks split after 14 bytes
    c04_segment_17, "C04", thorough, 16, alloc, 900 => c04::segmentation(17); // SET k v + GET k (symbolic bytes) read in two chunks split after 17 bytes
    c04_segment_19, "C04", thorough, 16, alloc, 900 => c04::segmentation(19); // SET k v + GET k (symbolic bytes) read in two chunks split after 19 bytes
    c04_segment_22, "C04", thorough, 16, alloc, 900 => c04::segmentation(22); // SET k v + GET k (symbolic bytes) read in two chunks split after 22 bytes
    c04_segment_25, "C04", quick, 16, alloc, 900 => c04::segmentation(25); // SET k v + GET k (symbolic bytes) read in two chunks split after 25 bytes
    c04_segment_28, "C04", thorough, 16, alloc, 900 => c04::segmentation(28); // SET k v + GET k (symbolic bytes) read in two chunks split after 28 bytes
    c04_segment_31, "C04", quick, 16, alloc, 900 => c04::segmentation(31); // SET k v + GET k (symbolic bytes) read in two chunks split after 31 bytes
    c04_segment_35, "C04", thorough, 16, alloc, 900 => c04::segmentation(35); // SET k v + GET k (symbolic bytes) read in two chunks split after 35 bytes
    c04_segment_40, "C04", thorough, 16, alloc, 900 => c04::segmentation(40); // SET k v + GET k (symbolic bytes) read in two chunks split after 40 bytes
    c16_twin, "C16", quick, 8, plain, 300 => c16::twin();
    c16_diff_get_1, "C16", quick, 10, plain, 900 => c16::diff(b"GET", &[A::S(1)]); // GET with 1 argument(s)
    c16_diff_get_0, "C16", thorough, 10, plain, 900 => c16::diff(b"GET", &[]); // GET with 0 argument(s)
    c16_diff_get_2, "C16", thorough, 10, plain, 900 => c16::diff(b"GET", &[A::S(1), A::S(1)]); // GET with 2 argument(s)
    c16_diff_set_2, "C16", thorough, 10, plain, 900 => c16::diff(b"SET", &[A::S(1), A::S(1)]); // SET with 2 argument(s)
    c16_diff_set_ex, "C16", quick, 10, plain, 900 => c16::diff(b"SET", &[A::S(1), A::S(1), A::L(b"EX"), A::D(2)]); // SET with 4 argument(s)
    c16_diff_set_px_nx, "C16", thorough, 10, plain, 900 => c16::diff(b"SET", &[A::S(1), A::S(1), A::L(b"PX"), A::D(2), A::L(b"NX")]); // SET with 5 argument(s)
    c16_diff_expire_2, "C16", thorough, 10, plain, 900 => c16::diff(b"EXPIRE", &[A::S(1), A::D(2)]); // EXPIRE with 2 argument(s)
    c16_diff_expire_gt, "C16", quick, 10, plain, 900 => c16::diff(b"EXPIRE", &[A::S(1), A::D(2), A::L(b"GT")]); // EXPIRE with 3 argument(s)
    c16_diff_acl_help, "C16", quick, 10, plain, 900 => c16::diff(b"ACL", &[A::L(b"HELP")]); // ACL with 1 argument(s)
    c16_diff_acl_whoami, "C16", thorough, 10, plain, 900 => c16::diff(b"ACL", &[A::L(b"WHOAMI")]); // ACL with 1 argument(s)
    c16_diff_incrby, "C16", thorough, 10, plain, 900 => c16::diff(b"INCRBY", &[A::S(1), A::D(2)]); // INCRBY with 2 argument(s)
    c16_diff_lrange, "C16", thorough, 10, plain, 900 => c16::diff(b"LRANGE", &[A::S(1), A::D(2), A::D(2)]); // LRANGE with 3 argument(s)
    c16_diff_hset_2, "C16", thorough, 10, plain, 900 => c16::diff(b"HSET", &[A::S(1), A::S(1), A::S(1)]); // HSET with 3 argument(s)
    c16_diff_zadd, "C16", thorough, 10, plain, 900 => c16::diff(b"ZADD", &[A::S(1), A::D(2), A::S(1)]); // ZADD with 3 argument(s)
    c16_diff_getnil, "C16", thorough, 10, plain, 900 => c16::diff(b"GET", &[A::Nil]); // GET with 1 argument(s)
    c16_diff_expire_int, "C16", thorough, 10, plain, 900 => c16::diff(b"EXPIRE", &[A::S(1), A::Int]); // EXPIRE with 2 argument(s)
    c07_gcounter_comm, "C07", thorough, 8, plain, 2400 => c07::gcounter_law(0); // 2 replicas, symbolic u32 counts and presence
    c07_gcounter_idem, "C07", thorough, 8, plain, 2400 => c07::gcounter_law(1); // 2 replicas, symbolic u32 counts and presence
    c07_gcounter_assoc, "C07", thorough, 8, plain, 2400 => c07::gcounter_law(2); // 2 replicas, symbolic u32 counts and presence
    c07_pncounter_comm, "C07", thorough, 8, plain, 2400 => c07::pncounter_law(0); // 2 replicas, symbolic u32 increments, 1 decrement
    c07_pncounter_idem, "C07", thorough, 8, plain, 2400 => c07::pncounter_law(1); // 2 replicas, symbolic u32 increments, 1 decrement
    c07_pncounter_assoc, "C07", thorough, 8, plain, 2400 => c07::pncounter_law(2); // 2 replicas, symbolic u32 increments, 1 decrement
    c07_gset_comm, "C07", thorough, 8, plain, 2400 => c07::gset_law(0); // elements subset of {a,b}
    c07_gset_idem, "C07", thorough, 8, plain, 2400 => c07::gset_law(1); // elements subset of {a,b}
    c07_gset_assoc, "C07", thorough, 8, plain, 2400 => c07::gset_law(2); // elements subset of {a,b}
    c07_orset_comm, "C07", thorough, 8, plain, 2400 => c07::orset_law(0); // element a: optional add/remove/re-add per replica
    c07_orset_idem, "C07", thorough, 8, plain, 2400 => c07::orset_law(1); // element a: optional add/remove/re-add per replica
    c07_orset_assoc, "C07", thorough, 8, plain, 2400 => c07::orset_law(2); // element a: optional add/remove/re-add per replica
    c07_vclock_comm, "C07", thorough, 8, plain, 2400 => c07::vclock_law(0); // 2 replicas, 0-2 increments each
    c07_vclock_idem, "C07", thorough, 8, plain, 2400 => c07::vclock_law(1); // 2 replicas, 0-2 increments each
    c07_vclock_assoc, "C07", thorough, 8, plain, 2400 => c07::vclock_law(2); // 2 replicas, 0-2 increments each
    c07_hash_f_comm, "C07", thorough, 8, plain, 2400 => c07::hash_law(0, false); // hash over field f: symbolic register, stamps, expiry
    c07_hash_fg_comm, "C07", thorough, 8, plain, 3000 => c07::hash_law(0, true); // hash over fields f,g
    c07_hash_f_idem, "C07", thorough, 8, plain, 2400 => c07::hash_law(1, false); // hash over field f: symbolic register, stamps, expiry
    c07_hash_fg_idem, "C07", thorough, 8, plain, 3000 => c07::hash_law(1, true); // hash over fields f,g
    c07_hash_f_assoc, "C07", thorough, 8, plain, 2400 => c07::hash_law(2, false); // hash over field f: symbolic register, stamps, expiry
    c07_hash_fg_assoc, "C07", thorough, 8, plain, 3000 => c07::hash_law(2, true); // hash over fields f,g
    c07_mixed_comm, "C07", thorough, 8, plain, 2400 => c07::mixed_comm(); // LWW vs hash{f}: type-mismatch path
    c07_mixed_assoc_hlh, "C07", thorough, 8, plain, 2400 => c07::mixed_assoc_hlh(); // (Hash,Lww,Hash), concrete payloads, symbolic distinct stamps
    c11_twin, "C11", quick, 24, plain, 300 => c11::twin();
    c11_wal_only_entry, "C11", quick, 8, plain, 600 => c11::wal_only_entry(); // 2 segments with symbolic maximum stamps, WAL-only entry with symbolic stamp
    c11_entries_after, "C11", quick, 24, plain, 900 => c11::entries_after(1, 1); // WAL image of 2 entries, symbolic stamps and threshold
    c11_damaged_file_isolated, "C11", thorough, 24, plain, 1800 => c11::damaged_file_isolated(); // 2 WAL files, one symbolic header byte of file 1 overwritten
    c10_damaged_file_isolated, "C10", thorough, 24, plain, 1800 => c11::damaged_file_isolated(); // 2 WAL files, one symbolic header byte of file 1 overwritten
    c10_truncation_keeps_newer, "C10", quick, 24, plain, 1200 => c11::truncation_keeps_newer(); // 2 closed WAL files, symbolic stamps and truncation threshold
    c15_buffered_2_t4, "C15", quick, 12, alloc, 600 => c15::buffered_agrees(b"2", 4); // RespCodec::parse on a BytesMut vs the slice-level decoder, '$' + "2" + 4 symbolic bytes
    c15_buffered_2_t3, "C15", thorough, 12, alloc, 600 => c15::buffered_agrees(b"2", 3); // RespCodec::parse on a BytesMut vs the slice-level decoder, '$' + "2" + 3 symbolic bytes
    c15_buffered_0_t2, "C15", thorough, 12, alloc, 600 => c15::buffered_agrees(b"0", 2); // RespCodec::parse on a BytesMut vs the slice-level decoder, '$' + "0" + 2 symbolic bytes
    c15_buffered_m1_t1, "C15", quick, 12, alloc, 600 => c15::buffered_agrees(b"-1", 1); // RespCodec::parse on a BytesMut vs the slice-level decoder, '$' + "-1" + 1 symbolic bytes
    c08_apply_clock, "C08", quick, 6, plain, 900 => c08::apply_advances_clock(); // apply_remote_delta of any LWW delta (any stamp, any source replica incl. this node) on an arbitrary clock
    c06_observers_hset_hdel_causal_preg, "C06", quick, 6, plain, 2400 => c06::observers(2, 3, true, true); // A: HSET, B: HDEL after seeing A; observers holding hash {g} apply both deltas in both orders
    c06_observers_hset_hdel_causal, "C06", thorough, 6, plain, 2400 => c06::observers(2, 3, true, false); // A: HSET, B: HDEL after seeing A; observers without the key apply both deltas in both orders
    c06_observers_set_del_causal, "C06", thorough, 6, plain, 2400 => c06::observers(0, 1, true, false); // A: SET, B: DEL after seeing A; observers without the key apply both deltas in both orders
    c06_observers_set_set, "C06", thorough, 6, plain, 2400 => c06::observers(0, 0, false, false); // A: SET, B: SET; observers without the key apply both deltas in both orders
    c06_observers_hset_hset_preg, "C06", thorough, 6, plain, 2400 => c06::observers(2, 2, false, true); // A: HSET, B: HSET; observers holding hash {g} apply both deltas in both orders
    c06_observers_set_hset, "C06", thorough, 6, plain, 2400 => c06::observers(0, 2, false, false); // A: SET, B: HSET; observers without the key apply both deltas in both orders
    c06_observers_hset_hdel_preg, "C06", thorough, 6, plain, 2400 => c06::observers(2, 3, false, true); // A: HSET, B: HDEL; observers holding hash {g} apply both deltas in both orders
    c06_observers_set_hdel_causal_preg, "C06", thorough, 6, plain, 2400 => c06::observers(0, 3, true, true); // A: SET, B: HDEL after seeing A; observers holding hash {g} apply both deltas in both orders
    c18_bucket_sound, "C18", quick, 12, hasher, 900 => c18::bucket_sound(); // two buckets of 2 arbitrary digests each
    c10_entries_tail_empty, "C10", quick, 24, plain, 900 => c11::entries_after(1, 0); // WAL image of 2 entries, the last with an empty payload (header only)
    c10_entries_both_empty, "C10", thorough, 24, plain, 900 => c11::entries_after(0, 0); // WAL image of 2 header-only entries
    c10_entries_2_3, "C10", thorough, 24, plain, 1200 => c11::entries_after(2, 3); // WAL image of 2 entries with 2- and 3-byte payloads
    c01_dispatch_incrby, "C01", thorough, 24, plain, 2400 => c01::dispatch_incrdecr(0); // through execute(): INCRBY k n on a stored one-digit integer, n = any i64
    c01_dispatch_decrby, "C01", thorough, 24, plain, 2400 => c01::dispatch_incrdecr(1); // through execute(): DECRBY k n on a stored one-digit integer, n = any i64
}
