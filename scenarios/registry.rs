// name, property, tier, unwind, stub-kind, cap seconds => scenario call
registry! {
    c07_twin,            "C07", quick,    4, plain, 120 => c07::twin();
    c07_lww_comm,        "C07", quick,    4, plain, 180 => c07::lww_commutative();
    c07_lww_idem,        "C07", quick,    4, plain, 180 => c07::lww_idempotent();
    c07_lww_assoc,       "C07", quick,    4, plain, 300 => c07::lww_associative();
    c08_twin,            "C08", quick,    4, plain, 120 => c08::twin();
    c08_reg_step,        "C08", quick,    4, plain, 120 => c08::reg_write_after_observe(); // all stamps < 2^62, 1-byte values
    c08_state_write,     "C08", experimental,    6, plain, 600 => c08::state_step(0); // one key, LWW values, arbitrary I-state + arbitrary remote delta, then record_write
    c08_state_delete,    "C08", experimental,    6, plain, 600 => c08::state_step(1); // same, then record_delete
    c15_twin, "C15", quick, 12, alloc, 120 => c15::twin();
    c15_bulk_m2_t1, "C15", thorough, 12, alloc, 300 => c15::bulk(b"-2", None, 1); // '$' + length text "-2" + CRLF + 1 symbolic bytes; both decoders
    c15_bulk_m2_t2, "C15", quick, 12, alloc, 1500 => c15::bulk(b"-2", None, 2); // '$' + length text "-2" + CRLF + 2 symbolic bytes; both decoders
    c15_bulk_m1_t0, "C15", quick, 12, alloc, 300 => c15::bulk(b"-1", Some(-1), 0); // '$' + length text "-1" + CRLF + 0 symbolic bytes; both decoders
    c15_bulk_m1_t2, "C15", thorough, 12, alloc, 300 => c15::bulk(b"-1", Some(-1), 2); // '$' + length text "-1" + CRLF + 2 symbolic bytes; both decoders
    c15_bulk_0_t1, "C15", thorough, 12, alloc, 300 => c15::bulk(b"0", Some(0), 1); // '$' + length text "0" + CRLF + 1 symbolic bytes; both decoders
    c15_bulk_0_t2, "C15", quick, 12, alloc, 300 => c15::bulk(b"0", Some(0), 2); // '$' + length text "0" + CRLF + 2 symbolic bytes; both decoders
    c15_bulk_0_t3, "C15", thorough, 12, alloc, 300 => c15::bulk(b"0", Some(0), 3); // '$' + length text "0" + CRLF + 3 symbolic bytes; both decoders
    c15_bulk_1_t2, "C15", thorough, 12, alloc, 300 => c15::bulk(b"1", Some(1), 2); // '$' + length text "1" + CRLF + 2 symbolic bytes; both decoders
    c15_bulk_1_t3, "C15", quick, 12, alloc, 300 => c15::bulk(b"1", Some(1), 3); // '$' + length text "1" + CRLF + 3 symbolic bytes; both decoders
    c15_bulk_1_t4, "C15", thorough, 12, alloc, 300 => c15::bulk(b"1", Some(1), 4); // '$' + length text "1" + CRLF + 4 symbolic bytes; both decoders
    c15_bulk_2_t3, "C15", quick, 12, alloc, 300 => c15::bulk(b"2", Some(2), 3); // '$' + length text "2" + CRLF + 3 symbolic bytes; both decoders
    c15_bulk_2_t4, "C15", quick, 12, alloc, 300 => c15::bulk(b"2", Some(2), 4); // '$' + length text "2" + CRLF + 4 symbolic bytes; both decoders
    c15_bulk_2_t5, "C15", thorough, 12, alloc, 300 => c15::bulk(b"2", Some(2), 5); // '$' + length text "2" + CRLF + 5 symbolic bytes; both decoders
    c15_bulk_3_t4, "C15", thorough, 12, alloc, 300 => c15::bulk(b"3", Some(3), 4); // '$' + length text "3" + CRLF + 4 symbolic bytes; both decoders
    c15_bulk_3_t5, "C15", thorough, 12, alloc, 300 => c15::bulk(b"3", Some(3), 5); // '$' + length text "3" + CRLF + 5 symbolic bytes; both decoders
    c15_bulk_3_t6, "C15", thorough, 12, alloc, 300 => c15::bulk(b"3", Some(3), 6); // '$' + length text "3" + CRLF + 6 symbolic bytes; both decoders
    c15_bulk_2p31_t1, "C15", thorough, 14, alloc, 300 => c15::bulk(b"2147483648", Some(2147483648), 1); // '$' + length text "2147483648" + CRLF + 1 symbolic bytes; both decoders
    c15_bulk_2p31_t2, "C15", thorough, 14, alloc, 300 => c15::bulk(b"2147483648", Some(2147483648), 2); // '$' + length text "2147483648" + CRLF + 2 symbolic bytes; both decoders
    c15_bulk_i64max_t1, "C15", thorough, 26, alloc, 300 => c15::bulk(b"9223372036854775807", Some(9223372036854775807), 1); // '$' + length text "9223372036854775807" + CRLF + 1 symbolic bytes; both decoders
    c15_bulk_i64max_t2, "C15", quick, 26, alloc, 300 => c15::bulk(b"9223372036854775807", Some(9223372036854775807), 2); // '$' + length text "9223372036854775807" + CRLF + 2 symbolic bytes; both decoders
    c15_bulk_u64max_t1, "C15", thorough, 26, alloc, 300 => c15::bulk(b"18446744073709551615", None, 1); // '$' + length text "18446744073709551615" + CRLF + 1 symbolic bytes; both decoders
    c15_bulk_u64max_t2, "C15", thorough, 26, alloc, 300 => c15::bulk(b"18446744073709551615", None, 2); // '$' + length text "18446744073709551615" + CRLF + 2 symbolic bytes; both decoders
    c15_bulk_huge_t1, "C15", quick, 26, alloc, 300 => c15::bulk(b"99999999999999999999", None, 1); // '$' + length text "99999999999999999999" + CRLF + 1 symbolic bytes; both decoders
    c15_bulk_huge_t2, "C15", thorough, 26, alloc, 300 => c15::bulk(b"99999999999999999999", None, 2); // '$' + length text "99999999999999999999" + CRLF + 2 symbolic bytes; both decoders
    c15_bulk_empty_t1, "C15", quick, 12, alloc, 300 => c15::bulk(b"", None, 1); // '$' + length text "" + CRLF + 1 symbolic bytes; both decoders
    c15_bulk_empty_t2, "C15", thorough, 12, alloc, 300 => c15::bulk(b"", None, 2); // '$' + length text "" + CRLF + 2 symbolic bytes; both decoders
    c15_bulk_alpha_t1, "C15", thorough, 12, alloc, 300 => c15::bulk(b"x", None, 1); // '$' + length text "x" + CRLF + 1 symbolic bytes; both decoders
    c15_bulk_alpha_t2, "C15", thorough, 12, alloc, 300 => c15::bulk(b"x", None, 2); // '$' + length text "x" + CRLF + 2 symbolic bytes; both decoders
    c15_array_m2_n0, "C15", thorough, 12, alloc, 300 => c15::array(b"-2", None, 0, false); // '*' + length text "-2" + 0 one-byte bulk elements
    c15_array_m2_n1, "C15", quick, 12, alloc, 1500 => c15::array(b"-2", None, 1, false); // '*' + length text "-2" + 1 one-byte bulk elements
    c15_array_m1_n0, "C15", thorough, 12, alloc, 300 => c15::array(b"-1", Some(-1), 0, false); // '*' + length text "-1" + 0 one-byte bulk elements
    c15_array_m1_n1, "C15", thorough, 12, alloc, 300 => c15::array(b"-1", Some(-1), 1, false); // '*' + length text "-1" + 1 one-byte bulk elements
    c15_array_0_n0, "C15", thorough, 12, alloc, 300 => c15::array(b"0", Some(0), 0, false); // '*' + length text "0" + 0 one-byte bulk elements
    c15_array_0_n1, "C15", thorough, 12, alloc, 300 => c15::array(b"0", Some(0), 1, false); // '*' + length text "0" + 1 one-byte bulk elements
    c15_array_0_n1p, "C15", thorough, 12, alloc, 300 => c15::array(b"0", Some(0), 1, true); // '*' + length text "0" + 1 one-byte bulk elements (last one cut after its header)
    c15_array_0_n2, "C15", thorough, 12, alloc, 300 => c15::array(b"0", Some(0), 2, false); // '*' + length text "0" + 2 one-byte bulk elements
    c15_array_0_n2p, "C15", thorough, 12, alloc, 300 => c15::array(b"0", Some(0), 2, true); // '*' + length text "0" + 2 one-byte bulk elements (last one cut after its header)
    c15_array_1_n0, "C15", thorough, 12, alloc, 300 => c15::array(b"1", Some(1), 0, false); // '*' + length text "1" + 0 one-byte bulk elements
    c15_array_1_n1, "C15", thorough, 12, alloc, 300 => c15::array(b"1", Some(1), 1, false); // '*' + length text "1" + 1 one-byte bulk elements
    c15_array_1_n1p, "C15", thorough, 12, alloc, 300 => c15::array(b"1", Some(1), 1, true); // '*' + length text "1" + 1 one-byte bulk elements (last one cut after its header)
    c15_array_1_n2, "C15", quick, 12, alloc, 300 => c15::array(b"1", Some(1), 2, false); // '*' + length text "1" + 2 one-byte bulk elements
    c15_array_1_n2p, "C15", thorough, 12, alloc, 300 => c15::array(b"1", Some(1), 2, true); // '*' + length text "1" + 2 one-byte bulk elements (last one cut after its header)
    c15_array_2_n0, "C15", thorough, 12, alloc, 300 => c15::array(b"2", Some(2), 0, false); // '*' + length text "2" + 0 one-byte bulk elements
    c15_array_2_n1, "C15", experimental, 12, alloc, 300 => c15::array(b"2", Some(2), 1, false); // '*' + length text "2" + 1 one-byte bulk elements
    c15_array_2_n1p, "C15", thorough, 12, alloc, 300 => c15::array(b"2", Some(2), 1, true); // '*' + length text "2" + 1 one-byte bulk elements (last one cut after its header)
    c15_array_2_n2, "C15", quick, 12, alloc, 300 => c15::array(b"2", Some(2), 2, false); // '*' + length text "2" + 2 one-byte bulk elements
    c15_array_2_n2p, "C15", experimental, 12, alloc, 300 => c15::array(b"2", Some(2), 2, true); // '*' + length text "2" + 2 one-byte bulk elements (last one cut after its header)
    c15_array_3_n0, "C15", thorough, 12, alloc, 300 => c15::array(b"3", Some(3), 0, false); // '*' + length text "3" + 0 one-byte bulk elements
    c15_array_3_n1, "C15", experimental, 12, alloc, 300 => c15::array(b"3", Some(3), 1, false); // '*' + length text "3" + 1 one-byte bulk elements
    c15_array_3_n1p, "C15", thorough, 12, alloc, 300 => c15::array(b"3", Some(3), 1, true); // '*' + length text "3" + 1 one-byte bulk elements (last one cut after its header)
    c15_array_3_n2, "C15", experimental, 12, alloc, 300 => c15::array(b"3", Some(3), 2, false); // '*' + length text "3" + 2 one-byte bulk elements
    c15_array_3_n2p, "C15", experimental, 12, alloc, 300 => c15::array(b"3", Some(3), 2, true); // '*' + length text "3" + 2 one-byte bulk elements (last one cut after its header)
    c15_array_2p31_n0, "C15", quick, 14, alloc, 300 => c15::array(b"2147483648", Some(2147483648), 0, false); // '*' + length text "2147483648" + 0 one-byte bulk elements
    c15_array_2p31_n1, "C15", experimental, 14, alloc, 300 => c15::array(b"2147483648", Some(2147483648), 1, false); // '*' + length text "2147483648" + 1 one-byte bulk elements
    c15_array_i64max_n0, "C15", thorough, 26, alloc, 300 => c15::array(b"9223372036854775807", Some(9223372036854775807), 0, false); // '*' + length text "9223372036854775807" + 0 one-byte bulk elements
    c15_array_i64max_n1, "C15", experimental, 26, alloc, 300 => c15::array(b"9223372036854775807", Some(9223372036854775807), 1, false); // '*' + length text "9223372036854775807" + 1 one-byte bulk elements
    c15_array_huge_n0, "C15", thorough, 26, alloc, 300 => c15::array(b"99999999999999999999", None, 0, false); // '*' + length text "99999999999999999999" + 0 one-byte bulk elements
    c15_array_huge_n1, "C15", experimental, 26, alloc, 300 => c15::array(b"99999999999999999999", None, 1, false); // '*' + length text "99999999999999999999" + 1 one-byte bulk elements
    c15_prefix_bulk_c1, "C15", thorough, 12, alloc, 300 => c15::prefix_stable_bulk(1); // '$2' frame + 5 symbolic bytes, prefix of 1 bytes vs whole
    c15_prefix_bulk_c3, "C15", thorough, 12, alloc, 300 => c15::prefix_stable_bulk(3); // '$2' frame + 5 symbolic bytes, prefix of 3 bytes vs whole
    c15_prefix_bulk_c4, "C15", quick, 12, alloc, 300 => c15::prefix_stable_bulk(4); // '$2' frame + 5 symbolic bytes, prefix of 4 bytes vs whole
    c15_prefix_bulk_c5, "C15", thorough, 12, alloc, 300 => c15::prefix_stable_bulk(5); // '$2' frame + 5 symbolic bytes, prefix of 5 bytes vs whole
    c15_prefix_bulk_c6, "C15", quick, 12, alloc, 300 => c15::prefix_stable_bulk(6); // '$2' frame + 5 symbolic bytes, prefix of 6 bytes vs whole
    c15_prefix_bulk_c7, "C15", thorough, 12, alloc, 300 => c15::prefix_stable_bulk(7); // '$2' frame + 5 symbolic bytes, prefix of 7 bytes vs whole
    c15_prefix_bulk_c8, "C15", quick, 12, alloc, 300 => c15::prefix_stable_bulk(8); // '$2' frame + 5 symbolic bytes, prefix of 8 bytes vs whole
    c09_twin, "C09", quick, 8, plain, 300 => c09::twin();
    c09_group_commit_2, "C09", quick, 8, plain, 900 => c09::group_commit(2, true); // 2 appends + sync, rotation threshold symbolic in (16,200), symbolic append/fsync/create faults and partial writes
    c09_group_commit_2_nofault, "C09", quick, 8, plain, 600 => c09::group_commit(2, false); // 2 appends + sync, rotation threshold symbolic, no faults (pure rotation case)
    c09_group_commit_3, "C09", thorough, 8, plain, 1800 => c09::group_commit(3, true); // 3 appends + sync, symbolic threshold and faults
    c09_group_commit_3_nofault, "C09", thorough, 8, plain, 1800 => c09::group_commit(3, false); // 3 appends + sync, symbolic threshold, no faults
    c06_twin, "C06", quick, 6, plain, 300 => c06::twin();
    c06_pair_set_set_pre0, "C06", thorough, 6, plain, 2400 => c06::pair(0, 0, 0); // A: SET, B: SET on one key, pre-state absent; symbolic clocks and bytes; deltas cross-delivered once
    c06_pair_set_set_pre1, "C06", experimental, 6, plain, 1500 => c06::pair(0, 0, 1); // A: SET, B: SET on one key, pre-state common LWW value; symbolic clocks and bytes; deltas cross-delivered once
    c06_pair_set_set_pre2, "C06", experimental, 6, plain, 1500 => c06::pair(0, 0, 2); // A: SET, B: SET on one key, pre-state common hash {f}; symbolic clocks and bytes; deltas cross-delivered once
    c06_pair_set_del_pre0, "C06", quick, 6, plain, 1500 => c06::pair(0, 1, 0); // A: SET, B: DEL on one key, pre-state absent; symbolic clocks and bytes; deltas cross-delivered once
    c06_pair_set_del_pre1, "C06", experimental, 6, plain, 1500 => c06::pair(0, 1, 1); // A: SET, B: DEL on one key, pre-state common LWW value; symbolic clocks and bytes; deltas cross-delivered once
    c06_pair_set_del_pre2, "C06", experimental, 6, plain, 1500 => c06::pair(0, 1, 2); // A: SET, B: DEL on one key, pre-state common hash {f}; symbolic clocks and bytes; deltas cross-delivered once
    c06_pair_set_hset_pre0, "C06", experimental, 6, plain, 1500 => c06::pair(0, 2, 0); // A: SET, B: HSET on one key, pre-state absent; symbolic clocks and bytes; deltas cross-delivered once
    c06_pair_set_hset_pre1, "C06", experimental, 6, plain, 1500 => c06::pair(0, 2, 1); // A: SET, B: HSET on one key, pre-state common LWW value; symbolic clocks and bytes; deltas cross-delivered once
    c06_pair_set_hset_pre2, "C06", experimental, 6, plain, 1500 => c06::pair(0, 2, 2); // A: SET, B: HSET on one key, pre-state common hash {f}; symbolic clocks and bytes; deltas cross-delivered once
    c06_pair_set_hdel_pre0, "C06", thorough, 6, plain, 1500 => c06::pair(0, 3, 0); // A: SET, B: HDEL on one key, pre-state absent; symbolic clocks and bytes; deltas cross-delivered once
    c06_pair_set_hdel_pre1, "C06", experimental, 6, plain, 1500 => c06::pair(0, 3, 1); // A: SET, B: HDEL on one key, pre-state common LWW value; symbolic clocks and bytes; deltas cross-delivered once
    c06_pair_set_hdel_pre2, "C06", experimental, 6, plain, 1500 => c06::pair(0, 3, 2); // A: SET, B: HDEL on one key, pre-state common hash {f}; symbolic clocks and bytes; deltas cross-delivered once
    c06_pair_del_del_pre1, "C06", experimental, 6, plain, 1500 => c06::pair(1, 1, 1); // A: DEL, B: DEL on one key, pre-state common LWW value; symbolic clocks and bytes; deltas cross-delivered once
    c06_pair_del_del_pre2, "C06", experimental, 6, plain, 1500 => c06::pair(1, 1, 2); // A: DEL, B: DEL on one key, pre-state common hash {f}; symbolic clocks and bytes; deltas cross-delivered once
    c06_pair_del_hset_pre0, "C06", experimental, 6, plain, 1500 => c06::pair(1, 2, 0); // A: DEL, B: HSET on one key, pre-state absent; symbolic clocks and bytes; deltas cross-delivered once
    c06_pair_del_hset_pre1, "C06", experimental, 6, plain, 1500 => c06::pair(1, 2, 1); // A: DEL, B: HSET on one key, pre-state common LWW value; symbolic clocks and bytes; deltas cross-delivered once
    c06_pair_del_hset_pre2, "C06", experimental, 6, plain, 1500 => c06::pair(1, 2, 2); // A: DEL, B: HSET on one key, pre-state common hash {f}; symbolic clocks and bytes; deltas cross-delivered once
    c06_pair_del_hdel_pre1, "C06", experimental, 6, plain, 1500 => c06::pair(1, 3, 1); // A: DEL, B: HDEL on one key, pre-state common LWW value; symbolic clocks and bytes; deltas cross-delivered once
    c06_pair_del_hdel_pre2, "C06", experimental, 6, plain, 1500 => c06::pair(1, 3, 2); // A: DEL, B: HDEL on one key, pre-state common hash {f}; symbolic clocks and bytes; deltas cross-delivered once
    c06_pair_hset_hset_pre0, "C06", experimental, 6, plain, 1500 => c06::pair(2, 2, 0); // A: HSET, B: HSET on one key, pre-state absent; symbolic clocks and bytes; deltas cross-delivered once
    c06_pair_hset_hset_pre1, "C06", experimental, 6, plain, 1500 => c06::pair(2, 2, 1); // A: HSET, B: HSET on one key, pre-state common LWW value; symbolic clocks and bytes; deltas cross-delivered once
    c06_pair_hset_hset_pre2, "C06", thorough, 6, plain, 2400 => c06::pair(2, 2, 2); // A: HSET, B: HSET on one key, pre-state common hash {f}; symbolic clocks and bytes; deltas cross-delivered once
    c06_pair_hset_hdel_pre0, "C06", experimental, 6, plain, 1500 => c06::pair(2, 3, 0); // A: HSET, B: HDEL on one key, pre-state absent; symbolic clocks and bytes; deltas cross-delivered once
    c06_pair_hset_hdel_pre1, "C06", experimental, 6, plain, 1500 => c06::pair(2, 3, 1); // A: HSET, B: HDEL on one key, pre-state common LWW value; symbolic clocks and bytes; deltas cross-delivered once
    c06_pair_hset_hdel_pre2, "C06", thorough, 6, plain, 2400 => c06::pair(2, 3, 2); // A: HSET, B: HDEL on one key, pre-state common hash {f}; symbolic clocks and bytes; deltas cross-delivered once
    c06_pair_hdel_hdel_pre1, "C06", thorough, 6, plain, 1500 => c06::pair(3, 3, 1); // A: HDEL, B: HDEL on one key, pre-state common LWW value; symbolic clocks and bytes; deltas cross-delivered once
    c06_pair_hdel_hdel_pre2, "C06", experimental, 6, plain, 1500 => c06::pair(3, 3, 2); // A: HDEL, B: HDEL on one key, pre-state common hash {f}; symbolic clocks and bytes; deltas cross-delivered once
    c06_dup_reorder, "C06", experimental, 6, plain, 1500 => c06::dup_reorder(); // SET/SET with each delta delivered twice
    c03_twin, "C03", quick, 12, hasher, 120 => c03::twin();
    c03_route_l0_n1, "C03", thorough, 12, hasher, 600 => c03::routing_agree(0, 1); // key = 0 symbolic ASCII bytes, 1 shards, transparent hasher
    c03_route_l0_n2, "C03", thorough, 12, hasher, 600 => c03::routing_agree(0, 2); // key = 0 symbolic ASCII bytes, 2 shards, transparent hasher
    c03_route_l0_n3, "C03", thorough, 12, hasher, 600 => c03::routing_agree(0, 3); // key = 0 symbolic ASCII bytes, 3 shards, transparent hasher
    c03_route_l0_n16, "C03", thorough, 12, hasher, 600 => c03::routing_agree(0, 16); // key = 0 symbolic ASCII bytes, 16 shards, transparent hasher
    c03_route_l0_n64, "C03", thorough, 12, hasher, 600 => c03::routing_agree(0, 64); // key = 0 symbolic ASCII bytes, 64 shards, transparent hasher
    c03_route_l1_n1, "C03", thorough, 12, hasher, 600 => c03::routing_agree(1, 1); // key = 1 symbolic ASCII bytes, 1 shards, transparent hasher
    c03_route_l1_n2, "C03", thorough, 12, hasher, 600 => c03::routing_agree(1, 2); // key = 1 symbolic ASCII bytes, 2 shards, transparent hasher
    c03_route_l1_n3, "C03", quick, 12, hasher, 600 => c03::routing_agree(1, 3); // key = 1 symbolic ASCII bytes, 3 shards, transparent hasher
    c03_route_l1_n16, "C03", quick, 12, hasher, 600 => c03::routing_agree(1, 16); // key = 1 symbolic ASCII bytes, 16 shards, transparent hasher
    c03_route_l1_n64, "C03", thorough, 12, hasher, 600 => c03::routing_agree(1, 64); // key = 1 symbolic ASCII bytes, 64 shards, transparent hasher
    c03_route_l2_n1, "C03", thorough, 12, hasher, 600 => c03::routing_agree(2, 1); // key = 2 symbolic ASCII bytes, 1 shards, transparent hasher
    c03_route_l2_n2, "C03", quick, 12, hasher, 600 => c03::routing_agree(2, 2); // key = 2 symbolic ASCII bytes, 2 shards, transparent hasher
    c03_route_l2_n3, "C03", thorough, 12, hasher, 600 => c03::routing_agree(2, 3); // key = 2 symbolic ASCII bytes, 3 shards, transparent hasher
    c03_route_l2_n16, "C03", thorough, 12, hasher, 600 => c03::routing_agree(2, 16); // key = 2 symbolic ASCII bytes, 16 shards, transparent hasher
    c03_route_l2_n64, "C03", thorough, 12, hasher, 600 => c03::routing_agree(2, 64); // key = 2 symbolic ASCII bytes, 64 shards, transparent hasher
    c03_route_l3_n1, "C03", thorough, 12, hasher, 600 => c03::routing_agree(3, 1); // key = 3 symbolic ASCII bytes, 1 shards, transparent hasher
    c03_route_l3_n2, "C03", thorough, 12, hasher, 600 => c03::routing_agree(3, 2); // key = 3 symbolic ASCII bytes, 2 shards, transparent hasher
    c03_route_l3_n3, "C03", thorough, 12, hasher, 600 => c03::routing_agree(3, 3); // key = 3 symbolic ASCII bytes, 3 shards, transparent hasher
    c03_route_l3_n16, "C03", thorough, 12, hasher, 600 => c03::routing_agree(3, 16); // key = 3 symbolic ASCII bytes, 16 shards, transparent hasher
    c03_route_l3_n64, "C03", quick, 12, hasher, 600 => c03::routing_agree(3, 64); // key = 3 symbolic ASCII bytes, 64 shards, transparent hasher
    c03_home_rpoplpush, "C03", quick, 12, hasher, 600 => c03::single_home(0, 2); // RPOPLPUSH with two distinct symbolic 1-byte keys, 2 shards
    c03_home_lmove, "C03", thorough, 12, hasher, 600 => c03::single_home(1, 2); // LMOVE with two distinct symbolic 1-byte keys, 2 shards
    c03_home_rename, "C03", quick, 12, hasher, 600 => c03::single_home(2, 2); // RENAME with two distinct symbolic 1-byte keys, 2 shards
    c03_home_renamenx, "C03", thorough, 12, hasher, 600 => c03::single_home(3, 2); // RENAMENX with two distinct symbolic 1-byte keys, 2 shards
    c03_home_msetnx, "C03", quick, 12, hasher, 600 => c03::single_home(4, 2); // MSETNX with two distinct symbolic 1-byte keys, 2 shards
    c03_home_sortstore, "C03", thorough, 12, hasher, 600 => c03::single_home(5, 2); // SORTSTORE with two distinct symbolic 1-byte keys, 2 shards
    c03_primary_0, "C03", quick, 8, plain, 300 => c03::primary_is_only_key(0); // single-key command: routing key == its key
    c03_primary_1, "C03", experimental, 8, plain, 300 => c03::primary_is_only_key(1); // single-key command: routing key == its key
    c03_primary_2, "C03", quick, 8, plain, 300 => c03::primary_is_only_key(2); // single-key command: routing key == its key
    c03_primary_3, "C03", thorough, 8, plain, 300 => c03::primary_is_only_key(3); // single-key command: routing key == its key
    c03_primary_4, "C03", thorough, 8, plain, 300 => c03::primary_is_only_key(4); // single-key command: routing key == its key
    c03_primary_5, "C03", thorough, 8, plain, 300 => c03::primary_is_only_key(5); // single-key command: routing key == its key
    c03_primary_6, "C03", thorough, 8, plain, 300 => c03::primary_is_only_key(6); // single-key command: routing key == its key
    c03_primary_7, "C03", thorough, 8, plain, 300 => c03::primary_is_only_key(7); // single-key command: routing key == its key
    c03_primary_8, "C03", quick, 8, plain, 300 => c03::primary_is_only_key(8); // single-key command: routing key == its key
    c03_primary_9, "C03", thorough, 8, plain, 300 => c03::primary_is_only_key(9); // single-key command: routing key == its key
    c18_twin, "C18", quick, 12, hasher, 120 => c18::twin();
    c18_bucket_order_2, "C18", quick, 40, hasher, 300 => c18::bucket_order(2); // 2 arbitrary key digests, both orders
    c18_bucket_order_3, "C18", experimental, 40, hasher, 600 => c18::bucket_order(3); // 3 arbitrary key digests, all 6 orders
    c18_state_order_d0, "C18", experimental, 12, hasher, 900 => c18::state_insertion_order(0); // keys a,b with symbolic LWW values, two insertion orders, 1 bucket
    c18_state_order_d1, "C18", experimental, 12, hasher, 1500 => c18::state_insertion_order(1); // same, 2 buckets
    c18_sound_lww, "C18", quick, 52, hasher, 600 => c18::key_digest_sound(0); // two LWW values of one key with symbolic stamps/bytes/tombstones
    c18_sound_expiry, "C18", quick, 52, hasher, 600 => c18::key_digest_sound(1); // same LWW value, symbolic expiries
    c18_sound_hash, "C18", experimental, 52, hasher, 900 => c18::key_digest_sound(2); // hash {f} with equal outer stamp, different field registers
    c19_twin, "C19", quick, 8, plain, 300 => c19::twin();
    c19_from_config_3, "C19", quick, 8, plain, 600 => c19::from_config_ids(3); // 3-node cluster, replica_id symbolic in 1..=3
    c19_from_config_5, "C19", experimental, 8, plain, 1200 => c19::from_config_ids(5); // 5-node cluster, replica_id symbolic in 1..=5
    c15_line_plus_t1_codec, "C15", thorough, 12, alloc, 400 => c15::line(43, 1, 1); // type byte '+' + 1 symbolic bytes, codec decoder
    c15_line_plus_t1_parser, "C15", thorough, 10, alloc, 900 => c15::line(43, 1, 2); // type byte '+' + 1 symbolic bytes, parser decoder
    c15_line_plus_t2_codec, "C15", thorough, 12, alloc, 400 => c15::line(43, 2, 1); // type byte '+' + 2 symbolic bytes, codec decoder
    c15_line_plus_t2_parser, "C15", thorough, 10, alloc, 900 => c15::line(43, 2, 2); // type byte '+' + 2 symbolic bytes, parser decoder
    c15_line_plus_t3_codec, "C15", quick, 12, alloc, 400 => c15::line(43, 3, 1); // type byte '+' + 3 symbolic bytes, codec decoder
    c15_line_plus_t3_parser, "C15", thorough, 10, alloc, 900 => c15::line(43, 3, 2); // type byte '+' + 3 symbolic bytes, parser decoder
    c15_line_plus_t4_codec, "C15", thorough, 12, alloc, 400 => c15::line(43, 4, 1); // type byte '+' + 4 symbolic bytes, codec decoder
    c15_line_plus_t4_parser, "C15", experimental, 10, alloc, 900 => c15::line(43, 4, 2); // type byte '+' + 4 symbolic bytes, parser decoder
    c15_line_minus_t1_codec, "C15", thorough, 12, alloc, 400 => c15::line(45, 1, 1); // type byte '-' + 1 symbolic bytes, codec decoder
    c15_line_minus_t1_parser, "C15", thorough, 10, alloc, 900 => c15::line(45, 1, 2); // type byte '-' + 1 symbolic bytes, parser decoder
    c15_line_minus_t2_codec, "C15", quick, 12, alloc, 400 => c15::line(45, 2, 1); // type byte '-' + 2 symbolic bytes, codec decoder
    c15_line_minus_t2_parser, "C15", thorough, 10, alloc, 900 => c15::line(45, 2, 2); // type byte '-' + 2 symbolic bytes, parser decoder
    c15_line_minus_t3_codec, "C15", thorough, 12, alloc, 400 => c15::line(45, 3, 1); // type byte '-' + 3 symbolic bytes, codec decoder
    c15_line_minus_t3_parser, "C15", experimental, 10, alloc, 900 => c15::line(45, 3, 2); // type byte '-' + 3 symbolic bytes, parser decoder
    c15_line_minus_t4_codec, "C15", thorough, 12, alloc, 400 => c15::line(45, 4, 1); // type byte '-' + 4 symbolic bytes, codec decoder
    c15_line_minus_t4_parser, "C15", experimental, 10, alloc, 900 => c15::line(45, 4, 2); // type byte '-' + 4 symbolic bytes, parser decoder
    c15_line_colon_t1_codec, "C15", experimental, 12, alloc, 400 => c15::line(58, 1, 1); // type byte ':' + 1 symbolic bytes, codec decoder
    c15_line_colon_t1_parser, "C15", thorough, 10, alloc, 900 => c15::line(58, 1, 2); // type byte ':' + 1 symbolic bytes, parser decoder
    c15_line_colon_t2_codec, "C15", experimental, 12, alloc, 400 => c15::line(58, 2, 1); // type byte ':' + 2 symbolic bytes, codec decoder
    c15_line_colon_t2_parser, "C15", experimental, 10, alloc, 900 => c15::line(58, 2, 2); // type byte ':' + 2 symbolic bytes, parser decoder
    c15_line_colon_t3_codec, "C15", experimental, 12, alloc, 400 => c15::line(58, 3, 1); // type byte ':' + 3 symbolic bytes, codec decoder
    c15_line_colon_t3_parser, "C15", experimental, 10, alloc, 900 => c15::line(58, 3, 2); // type byte ':' + 3 symbolic bytes, parser decoder
    c15_line_colon_t4_codec, "C15", experimental, 12, alloc, 400 => c15::line(58, 4, 1); // type byte ':' + 4 symbolic bytes, codec decoder
    c15_line_colon_t4_parser, "C15", experimental, 10, alloc, 900 => c15::line(58, 4, 2); // type byte ':' + 4 symbolic bytes, parser decoder
    c01_twin, "C01", quick, 6, plain, 600 => c01::twin();
    c01_list_get_0, "C01", thorough, 6, plain, 900 => c01::list_get(0); // LINDEX kernel, list of 0 symbolic bytes, index = any isize
    c01_list_range_0, "C01", thorough, 6, plain, 1800 => c01::list_range(0); // LRANGE kernel, list of 0, start/stop = any isize pair
    c01_list_trim_0, "C01", thorough, 6, plain, 1800 => c01::list_trim(0); // LTRIM kernel, list of 0, start/stop = any isize pair
    c01_getrange_0, "C01", thorough, 6, plain, 1800 => c01::getrange(0); // GETRANGE on a 0-byte string, start/end = any isize pair
    c01_list_get_1, "C01", quick, 6, plain, 900 => c01::list_get(1); // LINDEX kernel, list of 1 symbolic bytes, index = any isize
    c01_list_range_1, "C01", experimental, 6, plain, 1800 => c01::list_range(1); // LRANGE kernel, list of 1, start/stop = any isize pair
    c01_list_trim_1, "C01", experimental, 6, plain, 1800 => c01::list_trim(1); // LTRIM kernel, list of 1, start/stop = any isize pair
    c01_list_set_1, "C01", thorough, 6, plain, 1800 => c01::list_set(1); // LSET kernel, list of 1, index = any isize
    c01_getrange_1, "C01", thorough, 6, plain, 1800 => c01::getrange(1); // GETRANGE on a 1-byte string, start/end = any isize pair
    c01_list_get_2, "C01", thorough, 6, plain, 900 => c01::list_get(2); // LINDEX kernel, list of 2 symbolic bytes, index = any isize
    c01_list_range_2, "C01", experimental, 6, plain, 1800 => c01::list_range(2); // LRANGE kernel, list of 2, start/stop = any isize pair
    c01_list_trim_2, "C01", experimental, 6, plain, 1800 => c01::list_trim(2); // LTRIM kernel, list of 2, start/stop = any isize pair
    c01_list_set_2, "C01", quick, 6, plain, 1800 => c01::list_set(2); // LSET kernel, list of 2, index = any isize
    c01_getrange_2, "C01", quick, 6, plain, 1800 => c01::getrange(2); // GETRANGE on a 2-byte string, start/end = any isize pair
    c01_list_get_3, "C01", quick, 6, plain, 900 => c01::list_get(3); // LINDEX kernel, list of 3 symbolic bytes, index = any isize
    c01_list_range_3, "C01", experimental, 6, plain, 1800 => c01::list_range(3); // LRANGE kernel, list of 3, start/stop = any isize pair
    c01_list_trim_3, "C01", experimental, 6, plain, 1800 => c01::list_trim(3); // LTRIM kernel, list of 3, start/stop = any isize pair
    c01_list_set_3, "C01", thorough, 6, plain, 1800 => c01::list_set(3); // LSET kernel, list of 3, index = any isize
    c01_getrange_3, "C01", thorough, 6, plain, 1800 => c01::getrange(3); // GETRANGE on a 3-byte string, start/end = any isize pair
    c01_set_px, "C01", experimental, 6, plain, 2400 => c01::set_px_then_observe(); // SET PX: px = any i64, now, dt < 2^40; then GET/TTL/PTTL
    c01_set_ex, "C01", thorough, 6, plain, 3000 => c01::set_ex_then_observe(); // SET EX: s = any i64
    c01_expire_opts, "C01", thorough, 6, plain, 2400 => c01::expire_options(1000); // EXPIRE none|NX|XX|GT|LT, seconds = any i64, optional existing deadline
    c01_pexpire_opts, "C01", experimental, 6, plain, 1500 => c01::expire_options(1); // PEXPIRE none|NX|XX|GT|LT, ms = any i64
    c01_active_eviction, "C01", thorough, 6, plain, 2400 => c01::active_eviction(); // set_time(t) vs deadline d, all t,d
    c01_empty_lpop, "C01", quick, 6, plain, 1200 => c01::empty_collection_removed(0); // LPOP of the last / not the last element
    c01_empty_rpop, "C01", thorough, 6, plain, 1200 => c01::empty_collection_removed(1); // RPOP of the last / not the last element
    c01_empty_ltrim, "C01", thorough, 6, plain, 1200 => c01::empty_collection_removed(2); // LTRIM of the last / not the last element
    c01_empty_srem, "C01", experimental, 6, plain, 1200 => c01::empty_collection_removed(3); // SREM of the last / not the last element
    c01_empty_hdel, "C01", experimental, 6, plain, 1200 => c01::empty_collection_removed(4); // HDEL of the last / not the last element
    c01_empty_zrem, "C01", experimental, 6, plain, 1200 => c01::empty_collection_removed(5); // ZREM of the last / not the last element
    c17_twin, "C17", quick, 6, plain, 900 => c17::twin();
    c17_wrongtype_incrby_list, "C17", experimental, 6, plain, 1500 => c17::wrong_type(0); // 4-key world of every type, symbolic arguments
    c17_wrongtype_append_hash, "C17", experimental, 6, plain, 1500 => c17::wrong_type(1); // 4-key world of every type, symbolic arguments
    c17_wrongtype_getrange_list, "C17", experimental, 6, plain, 1500 => c17::wrong_type(2); // 4-key world of every type, symbolic arguments
    c17_wrongtype_setrange_set, "C17", thorough, 6, plain, 1500 => c17::wrong_type(3); // 4-key world of every type, symbolic arguments
    c17_wrongtype_lpush_string, "C17", thorough, 6, plain, 1500 => c17::wrong_type(4); // 4-key world of every type, symbolic arguments
    c17_wrongtype_lset_string, "C17", thorough, 6, plain, 1500 => c17::wrong_type(5); // 4-key world of every type, symbolic arguments
    c17_wrongtype_hset_list, "C17", experimental, 6, plain, 1500 => c17::wrong_type(6); // 4-key world of every type, symbolic arguments
    c17_wrongtype_sadd_hash, "C17", experimental, 6, plain, 1500 => c17::wrong_type(7); // 4-key world of every type, symbolic arguments
    c17_wrongtype_hincrby_string, "C17", quick, 6, plain, 1500 => c17::wrong_type(8); // 4-key world of every type, symbolic arguments
    c17_wrongtype_lpop_hash, "C17", experimental, 6, plain, 1500 => c17::wrong_type(9); // 4-key world of every type, symbolic arguments
    c17_wrongtype_getset_list, "C17", experimental, 6, plain, 1500 => c17::wrong_type(10); // 4-key world of every type, symbolic arguments
    c17_wrongtype_setget_list, "C17", experimental, 6, plain, 1500 => c17::wrong_type(11); // 4-key world of every type, symbolic arguments
    c17_wrongtype_rpoplpush_to_string, "C17", experimental, 6, plain, 1500 => c17::wrong_type(12); // 4-key world of every type, symbolic arguments
    c17_wrongtype_strlen_set, "C17", thorough, 6, plain, 1500 => c17::wrong_type(13); // 4-key world of every type, symbolic arguments
    c17_badargs_incr_overflow, "C17", experimental, 24, plain, 1500 => c17::bad_args(0); // right-typed key, failing symbolic arguments
    c17_badargs_incr_nonnumber, "C17", experimental, 24, plain, 1500 => c17::bad_args(1); // right-typed key, failing symbolic arguments
    c17_badargs_lset_range, "C17", experimental, 24, plain, 1500 => c17::bad_args(2); // right-typed key, failing symbolic arguments
    c17_badargs_setrange_huge, "C17", experimental, 24, plain, 1500 => c17::bad_args(3); // right-typed key, failing symbolic arguments
    c17_badargs_set_badpx, "C17", thorough, 24, plain, 1500 => c17::bad_args(4); // right-typed key, failing symbolic arguments
    c17_badargs_expire_range, "C17", experimental, 24, plain, 1500 => c17::bad_args(5); // right-typed key, failing symbolic arguments
    c17_badargs_hincrby_nonnumber, "C17", experimental, 24, plain, 1500 => c17::bad_args(6); // right-typed key, failing symbolic arguments
    c17_readonly_get, "C17", experimental, 6, plain, 1500 => c17::read_only(0); // read-only op on a symbolic key of any type or a missing key
    c17_readonly_strlen, "C17", experimental, 6, plain, 1500 => c17::read_only(1); // read-only op on a symbolic key of any type or a missing key
    c17_readonly_getrange, "C17", experimental, 6, plain, 1500 => c17::read_only(2); // read-only op on a symbolic key of any type or a missing key
    c17_readonly_llen, "C17", experimental, 6, plain, 1500 => c17::read_only(3); // read-only op on a symbolic key of any type or a missing key
    c17_readonly_lindex, "C17", experimental, 6, plain, 1500 => c17::read_only(4); // read-only op on a symbolic key of any type or a missing key
    c17_readonly_lrange, "C17", experimental, 6, plain, 1500 => c17::read_only(5); // read-only op on a symbolic key of any type or a missing key
    c17_readonly_hget, "C17", experimental, 6, plain, 1500 => c17::read_only(6); // read-only op on a symbolic key of any type or a missing key
    c17_readonly_hlen, "C17", experimental, 6, plain, 1500 => c17::read_only(7); // read-only op on a symbolic key of any type or a missing key
    c17_readonly_scard, "C17", experimental, 6, plain, 1500 => c17::read_only(8); // read-only op on a symbolic key of any type or a missing key
    c17_readonly_ttl, "C17", quick, 6, plain, 1500 => c17::read_only(9); // read-only op on a symbolic key of any type or a missing key
    c17_readonly_pttl, "C17", thorough, 6, plain, 1500 => c17::read_only(10); // read-only op on a symbolic key of any type or a missing key
    c17_readonly_type, "C17", experimental, 6, plain, 1500 => c17::read_only(11); // read-only op on a symbolic key of any type or a missing key
    c17_readonly_exists, "C17", thorough, 6, plain, 1500 => c17::read_only(12); // read-only op on a symbolic key of any type or a missing key
    c04_twin, "C04", quick, 16, alloc, 300 => c04::twin();
    c04_get_1_collect, "C04", quick, 16, alloc, 900 => c04::get_frame(b"1", Some(1), 1, false, false, 0); // GET frame, declared length text "1", 1 key byte(s), symbolic separators; batch collector
    c04_get_1_fast, "C04", quick, 16, alloc, 900 => c04::get_frame(b"1", Some(1), 1, false, false, 1); // GET frame, declared length text "1", 1 key byte(s), symbolic separators; fast-path parser
    c04_get_1_2nd_collect, "C04", thorough, 16, alloc, 900 => c04::get_frame(b"1", Some(1), 1, true, false, 0); // GET frame, declared length text "1", 1 key byte(s), symbolic separators, then a second GET; batch collector
    c04_get_2_collect, "C04", thorough, 16, alloc, 900 => c04::get_frame(b"2", Some(2), 2, false, false, 0); // GET frame, declared length text "2", 2 key byte(s), symbolic separators; batch collector
    c04_get_2_fast, "C04", thorough, 16, alloc, 900 => c04::get_frame(b"2", Some(2), 2, false, false, 1); // GET frame, declared length text "2", 2 key byte(s), symbolic separators; fast-path parser
    c04_get_2_2nd_collect, "C04", quick, 16, alloc, 900 => c04::get_frame(b"2", Some(2), 2, true, false, 0); // GET frame, declared length text "2", 2 key byte(s), symbolic separators, then a second GET; batch collector
    c04_get_0_collect, "C04", thorough, 16, alloc, 900 => c04::get_frame(b"0", Some(0), 0, false, false, 0); // GET frame, declared length text "0", 0 key byte(s), symbolic separators; batch collector
    c04_get_0_fast, "C04", thorough, 16, alloc, 900 => c04::get_frame(b"0", Some(0), 0, false, false, 1); // GET frame, declared length text "0", 0 key byte(s), symbolic separators; fast-path parser
    c04_get_0_2nd_collect, "C04", thorough, 16, alloc, 900 => c04::get_frame(b"0", Some(0), 0, true, false, 0); // GET frame, declared length text "0", 0 key byte(s), symbolic separators, then a second GET; batch collector
    c04_get_2for1_collect, "C04", thorough, 16, alloc, 900 => c04::get_frame(b"2", Some(2), 1, false, false, 0); // GET frame, declared length text "2", 1 key byte(s), symbolic separators; batch collector
    c04_get_2for1_fast, "C04", thorough, 16, alloc, 900 => c04::get_frame(b"2", Some(2), 1, false, false, 1); // GET frame, declared length text "2", 1 key byte(s), symbolic separators; fast-path parser
    c04_get_2for1_2nd_collect, "C04", quick, 16, alloc, 900 => c04::get_frame(b"2", Some(2), 1, true, false, 0); // GET frame, declared length text "2", 1 key byte(s), symbolic separators, then a second GET; batch collector
    c04_get_0for1_collect, "C04", thorough, 16, alloc, 900 => c04::get_frame(b"0", Some(0), 1, false, false, 0); // GET frame, declared length text "0", 1 key byte(s), symbolic separators; batch collector
    c04_get_0for1_fast, "C04", thorough, 16, alloc, 900 => c04::get_frame(b"0", Some(0), 1, false, false, 1); // GET frame, declared length text "0", 1 key byte(s), symbolic separators; fast-path parser
    c04_get_0for1_2nd_collect, "C04", thorough, 16, alloc, 900 => c04::get_frame(b"0", Some(0), 1, true, false, 0); // GET frame, declared length text "0", 1 key byte(s), symbolic separators, then a second GET; batch collector
    c04_get_plus1_collect, "C04", thorough, 16, alloc, 900 => c04::get_frame(b"+1", Some(1), 1, false, false, 0); // GET frame, declared length text "+1", 1 key byte(s), symbolic separators; batch collector
    c04_get_plus1_fast, "C04", thorough, 16, alloc, 900 => c04::get_frame(b"+1", Some(1), 1, false, false, 1); // GET frame, declared length text "+1", 1 key byte(s), symbolic separators; fast-path parser
    c04_get_plus1_2nd_collect, "C04", thorough, 16, alloc, 900 => c04::get_frame(b"+1", Some(1), 1, true, false, 0); // GET frame, declared length text "+1", 1 key byte(s), symbolic separators, then a second GET; batch collector
    c04_get_neg1_collect, "C04", thorough, 16, alloc, 900 => c04::get_frame(b"-1", None, 1, false, false, 0); // GET frame, declared length text "-1", 1 key byte(s), symbolic separators; batch collector
    c04_get_neg1_fast, "C04", thorough, 16, alloc, 900 => c04::get_frame(b"-1", None, 1, false, false, 1); // GET frame, declared length text "-1", 1 key byte(s), symbolic separators; fast-path parser
    c04_get_neg1_2nd_collect, "C04", thorough, 16, alloc, 900 => c04::get_frame(b"-1", None, 1, true, false, 0); // GET frame, declared length text "-1", 1 key byte(s), symbolic separators, then a second GET; batch collector
    c04_get_empty_collect, "C04", experimental, 16, alloc, 900 => c04::get_frame(b"", None, 1, false, false, 0); // GET frame, declared length text "", 1 key byte(s), symbolic separators; batch collector
    c04_get_empty_fast, "C04", thorough, 16, alloc, 900 => c04::get_frame(b"", None, 1, false, false, 1); // GET frame, declared length text "", 1 key byte(s), symbolic separators; fast-path parser
    c04_get_empty_2nd_collect, "C04", experimental, 16, alloc, 900 => c04::get_frame(b"", None, 1, true, false, 0); // GET frame, declared length text "", 1 key byte(s), symbolic separators, then a second GET; batch collector
    c04_get_2p31_collect, "C04", thorough, 26, alloc, 900 => c04::get_frame(b"2147483648", None, 1, false, false, 0); // GET frame, declared length text "2147483648", 1 key byte(s), symbolic separators; batch collector
    c04_get_2p31_fast, "C04", thorough, 26, alloc, 900 => c04::get_frame(b"2147483648", None, 1, false, false, 1); // GET frame, declared length text "2147483648", 1 key byte(s), symbolic separators; fast-path parser
    c04_get_2p31_2nd_collect, "C04", thorough, 26, alloc, 900 => c04::get_frame(b"2147483648", None, 1, true, false, 0); // GET frame, declared length text "2147483648", 1 key byte(s), symbolic separators, then a second GET; batch collector
    c04_get_usizemax_collect, "C04", quick, 26, alloc, 900 => c04::get_frame(b"18446744073709551615", None, 1, false, false, 0); // GET frame, declared length text "18446744073709551615", 1 key byte(s), symbolic separators; batch collector
    c04_get_usizemax_fast, "C04", quick, 26, alloc, 900 => c04::get_frame(b"18446744073709551615", None, 1, false, false, 1); // GET frame, declared length text "18446744073709551615", 1 key byte(s), symbolic separators; fast-path parser
    c04_get_usizemax_2nd_collect, "C04", thorough, 26, alloc, 900 => c04::get_frame(b"18446744073709551615", None, 1, true, false, 0); // GET frame, declared length text "18446744073709551615", 1 key byte(s), symbolic separators, then a second GET; batch collector
    c04_get_huge_collect, "C04", thorough, 26, alloc, 900 => c04::get_frame(b"99999999999999999999", None, 1, false, false, 0); // GET frame, declared length text "99999999999999999999", 1 key byte(s), symbolic separators; batch collector
    c04_get_huge_fast, "C04", thorough, 26, alloc, 900 => c04::get_frame(b"99999999999999999999", None, 1, false, false, 1); // GET frame, declared length text "99999999999999999999", 1 key byte(s), symbolic separators; fast-path parser
    c04_get_huge_2nd_collect, "C04", thorough, 26, alloc, 900 => c04::get_frame(b"99999999999999999999", None, 1, true, false, 0); // GET frame, declared length text "99999999999999999999", 1 key byte(s), symbolic separators, then a second GET; batch collector
    c04_get_lower_collect, "C04", thorough, 16, alloc, 900 => c04::get_frame(b"1", Some(1), 1, false, true, 0); // lower-case get
    c04_get_incomplete_5, "C04", thorough, 16, alloc, 600 => c04::get_incomplete(5); // well-formed GET cut after 5 of 22 bytes
    c04_get_incomplete_14, "C04", thorough, 16, alloc, 600 => c04::get_incomplete(14); // well-formed GET cut after 14 of 22 bytes
    c04_get_incomplete_15, "C04", quick, 16, alloc, 600 => c04::get_incomplete(15); // well-formed GET cut after 15 of 22 bytes
    c04_get_incomplete_17, "C04", thorough, 16, alloc, 600 => c04::get_incomplete(17); // well-formed GET cut after 17 of 22 bytes
    c04_get_incomplete_18, "C04", thorough, 16, alloc, 600 => c04::get_incomplete(18); // well-formed GET cut after 18 of 22 bytes
    c04_get_incomplete_20, "C04", quick, 16, alloc, 600 => c04::get_incomplete(20); // well-formed GET cut after 20 of 22 bytes
    c04_get_incomplete_21, "C04", thorough, 16, alloc, 600 => c04::get_incomplete(21); // well-formed GET cut after 21 of 22 bytes
    c04_set_k1v1_collect, "C04", quick, 16, alloc, 1200 => c04::set_frame(1, 1, 0); // SET frame with symbolic separators
    c04_set_k1v1_fast, "C04", quick, 16, alloc, 1200 => c04::set_frame(1, 1, 1); // SET frame with symbolic separators
    c04_set_k1v2_collect, "C04", thorough, 16, alloc, 1200 => c04::set_frame(1, 2, 0); // SET frame with symbolic separators
    c04_set_k1v2_fast, "C04", thorough, 16, alloc, 1200 => c04::set_frame(1, 2, 1); // SET frame with symbolic separators
    c04_set_k2v1_collect, "C04", thorough, 16, alloc, 1200 => c04::set_frame(2, 1, 0); // SET frame with symbolic separators
    c04_set_k2v1_fast, "C04", thorough, 16, alloc, 1200 => c04::set_frame(2, 1, 1); // SET frame with symbolic separators
    c04_set_k2v2_collect, "C04", thorough, 16, alloc, 1200 => c04::set_frame(2, 2, 0); // SET frame with symbolic separators
    c04_set_k2v2_fast, "C04", thorough, 16, alloc, 1200 => c04::set_frame(2, 2, 1); // SET frame with symbolic separators
    c04_segment_1, "C04", thorough, 16, alloc, 900 => c04::segmentation(1); // SET k v + GET k (symbolic bytes) read in two chunks split after 1 bytes
    c04_segment_4, "C04", quick, 16, alloc, 900 => c04::segmentation(4); // SET k v + GET k (symbolic bytes) read in two chunks split after 4 bytes
    c04_segment_9, "C04", quick, 16, alloc, 900 => c04::segmentation(9); // SET k v + GET k (symbolic bytes) read in two chunks split after 9 bytes
    c04_segment_13, "C04", experimental, 16, alloc, 900 => c04::segmentation(13); // SET k v + GET k (symbolic bytes) read in two chunks split after 13 bytes
    c04_segment_14, "C04", experimental, 16, alloc, 900 => c04::segmentation(14); // SET k v + GET k (symbolic bytes) read in two chunks split after 14 bytes
    c04_segment_17, "C04", experimental, 16, alloc, 900 => c04::segmentation(17); // SET k v + GET k (symbolic bytes) read in two chunks split after 17 bytes
    c04_segment_19, "C04", experimental, 16, alloc, 900 => c04::segmentation(19); // SET k v + GET k (symbolic bytes) read in two chunks split after 19 bytes
    c04_segment_22, "C04", experimental, 16, alloc, 900 => c04::segmentation(22); // SET k v + GET k (symbolic bytes) read in two chunks split after 22 bytes
    c04_segment_25, "C04", experimental, 16, alloc, 900 => c04::segmentation(25); // SET k v + GET k (symbolic bytes) read in two chunks split after 25 bytes
    c04_segment_28, "C04", thorough, 16, alloc, 900 => c04::segmentation(28); // SET k v + GET k (symbolic bytes) read in two chunks split after 28 bytes
    c04_segment_31, "C04", quick, 16, alloc, 900 => c04::segmentation(31); // SET k v + GET k (symbolic bytes) read in two chunks split after 31 bytes
    c04_segment_35, "C04", thorough, 16, alloc, 900 => c04::segmentation(35); // SET k v + GET k (symbolic bytes) read in two chunks split after 35 bytes
    c04_segment_40, "C04", thorough, 16, alloc, 900 => c04::segmentation(40); // SET k v + GET k (symbolic bytes) read in two chunks split after 40 bytes
    c16_twin, "C16", quick, 64, plain, 300 => c16::twin();
    c07_gcounter_comm, "C07", experimental, 8, plain, 2400 => c07::gcounter_law(0); // 2 replicas, symbolic u32 counts and presence
    c07_gcounter_idem, "C07", experimental, 8, plain, 2400 => c07::gcounter_law(1); // 2 replicas, symbolic u32 counts and presence
    c07_gcounter_assoc, "C07", experimental, 8, plain, 2400 => c07::gcounter_law(2); // 2 replicas, symbolic u32 counts and presence
    c07_pncounter_comm, "C07", experimental, 8, plain, 2400 => c07::pncounter_law(0); // 2 replicas, symbolic u32 increments, 1 decrement
    c07_pncounter_idem, "C07", experimental, 8, plain, 2400 => c07::pncounter_law(1); // 2 replicas, symbolic u32 increments, 1 decrement
    c07_pncounter_assoc, "C07", experimental, 8, plain, 2400 => c07::pncounter_law(2); // 2 replicas, symbolic u32 increments, 1 decrement
    c07_gset_comm, "C07", experimental, 8, plain, 2400 => c07::gset_law(0); // elements subset of {a,b}
    c07_gset_idem, "C07", experimental, 8, plain, 2400 => c07::gset_law(1); // elements subset of {a,b}
    c07_gset_assoc, "C07", experimental, 8, plain, 2400 => c07::gset_law(2); // elements subset of {a,b}
    c07_orset_comm, "C07", experimental, 8, plain, 2400 => c07::orset_law(0); // element a: optional add/remove/re-add per replica
    c07_orset_idem, "C07", experimental, 8, plain, 2400 => c07::orset_law(1); // element a: optional add/remove/re-add per replica
    c07_orset_assoc, "C07", experimental, 8, plain, 2400 => c07::orset_law(2); // element a: optional add/remove/re-add per replica
    c07_vclock_comm, "C07", experimental, 8, plain, 2400 => c07::vclock_law(0); // 2 replicas, 0-2 increments each
    c07_vclock_idem, "C07", experimental, 8, plain, 2400 => c07::vclock_law(1); // 2 replicas, 0-2 increments each
    c07_vclock_assoc, "C07", experimental, 8, plain, 2400 => c07::vclock_law(2); // 2 replicas, 0-2 increments each
    c07_hash_f_comm, "C07", experimental, 8, plain, 2400 => c07::hash_law(0, false); // hash over field f: symbolic register, stamps, expiry
    c07_hash_fg_comm, "C07", experimental, 8, plain, 3000 => c07::hash_law(0, true); // hash over fields f,g
    c07_hash_f_idem, "C07", experimental, 8, plain, 2400 => c07::hash_law(1, false); // hash over field f: symbolic register, stamps, expiry
    c07_hash_fg_idem, "C07", experimental, 8, plain, 3000 => c07::hash_law(1, true); // hash over fields f,g
    c07_hash_f_assoc, "C07", experimental, 8, plain, 2400 => c07::hash_law(2, false); // hash over field f: symbolic register, stamps, expiry
    c07_hash_fg_assoc, "C07", experimental, 8, plain, 3000 => c07::hash_law(2, true); // hash over fields f,g
    c07_mixed_comm, "C07", experimental, 8, plain, 2400 => c07::mixed_comm(); // LWW vs hash{f}: type-mismatch path
    c07_mixed_assoc_hlh, "C07", experimental, 8, plain, 2400 => c07::mixed_assoc_hlh(); // (Hash,Lww,Hash), concrete payloads, symbolic distinct stamps
    c11_twin, "C11", quick, 24, plain, 300 => c11::twin();
    c11_wal_only_entry, "C11", quick, 8, plain, 600 => c11::wal_only_entry(); // 2 segments with symbolic maximum stamps, WAL-only entry with symbolic stamp
    c11_entries_after, "C11", experimental, 24, plain, 900 => c11::entries_after(1, 1); // WAL image of 2 entries, symbolic stamps and threshold
    c11_damaged_file_isolated, "C11", experimental, 24, plain, 1800 => c11::damaged_file_isolated(); // 2 WAL files, one symbolic header byte of file 1 overwritten
    c10_damaged_file_isolated, "C10", experimental, 24, plain, 1800 => c11::damaged_file_isolated(); // 2 WAL files, one symbolic header byte of file 1 overwritten
    c10_truncation_keeps_newer, "C10", experimental, 24, plain, 1200 => c11::truncation_keeps_newer(); // 2 closed WAL files, symbolic stamps and truncation threshold
    c15_buffered_2_t4, "C15", quick, 12, alloc, 600 => c15::buffered_agrees(b"2", 4); // RespCodec::parse on a BytesMut vs the slice-level decoder, '$' + "2" + 4 symbolic bytes
    c15_buffered_2_t3, "C15", thorough, 12, alloc, 600 => c15::buffered_agrees(b"2", 3); // RespCodec::parse on a BytesMut vs the slice-level decoder, '$' + "2" + 3 symbolic bytes
    c15_buffered_0_t2, "C15", thorough, 12, alloc, 600 => c15::buffered_agrees(b"0", 2); // RespCodec::parse on a BytesMut vs the slice-level decoder, '$' + "0" + 2 symbolic bytes
    c15_buffered_m1_t1, "C15", quick, 12, alloc, 600 => c15::buffered_agrees(b"-1", 1); // RespCodec::parse on a BytesMut vs the slice-level decoder, '$' + "-1" + 1 symbolic bytes
    c08_apply_clock, "C08", quick, 6, plain, 900 => c08::apply_advances_clock(); // apply_remote_delta of any LWW delta (any stamp, any source replica incl. this node) on an arbitrary clock
    c06_observers_hset_hdel_causal_preg, "C06", experimental, 6, plain, 2400 => c06::observers(2, 3, true, true); // A: HSET, B: HDEL after seeing A; observers holding hash {g} apply both deltas in both orders
    c06_observers_hset_hdel_causal, "C06", experimental, 6, plain, 2400 => c06::observers(2, 3, true, false); // A: HSET, B: HDEL after seeing A; observers without the key apply both deltas in both orders
    c06_observers_set_del_causal, "C06", thorough, 6, plain, 2400 => c06::observers(0, 1, true, false); // A: SET, B: DEL after seeing A; observers without the key apply both deltas in both orders
    c06_observers_set_set, "C06", thorough, 6, plain, 2400 => c06::observers(0, 0, false, false); // A: SET, B: SET; observers without the key apply both deltas in both orders
    c06_observers_hset_hset_preg, "C06", experimental, 6, plain, 2400 => c06::observers(2, 2, false, true); // A: HSET, B: HSET; observers holding hash {g} apply both deltas in both orders
    c06_observers_set_hset, "C06", experimental, 6, plain, 2400 => c06::observers(0, 2, false, false); // A: SET, B: HSET; observers without the key apply both deltas in both orders
    c06_observers_hset_hdel_preg, "C06", experimental, 6, plain, 2400 => c06::observers(2, 3, false, true); // A: HSET, B: HDEL; observers holding hash {g} apply both deltas in both orders
    c06_observers_set_hdel_causal_preg, "C06", experimental, 6, plain, 2400 => c06::observers(0, 3, true, true); // A: SET, B: HDEL after seeing A; observers holding hash {g} apply both deltas in both orders
    c18_bucket_sound, "C18", quick, 40, hasher, 900 => c18::bucket_sound(); // two buckets of 2 arbitrary digests each
    c10_entries_tail_empty, "C10", experimental, 24, plain, 900 => c11::entries_after(1, 0); // WAL image of 2 entries, the last with an empty payload (header only)
    c10_entries_both_empty, "C10", quick, 24, plain, 900 => c11::entries_after(0, 0); // WAL image of 2 header-only entries
    c10_entries_2_3, "C10", experimental, 24, plain, 1200 => c11::entries_after(2, 3); // WAL image of 2 entries with 2- and 3-byte payloads
    c01_dispatch_incrby, "C01", experimental, 24, plain, 2400 => c01::dispatch_incrdecr(0); // through execute(): INCRBY k n on a stored one-digit integer, n = any i64
    c01_dispatch_decrby, "C01", experimental, 24, plain, 2400 => c01::dispatch_incrdecr(1); // through execute(): DECRBY k n on a stored one-digit integer, n = any i64
    c17_badargs_set_ex_overflow, "C17", quick, 24, plain, 1500 => c17::bad_args(7); // SET l v EX s with s*1000 beyond i64 on a list key carrying a TTL
    c17_badargs_set_ex_overflow_nokey, "C17", experimental, 24, plain, 1500 => c17::bad_args(8); // same on a missing key
    c16_kw_set_keepttl, "C16", experimental, 64, plain, 1500 => c16::diff(b"SET", &[A::S(1), A::S(1), A::L(b"KEEPTTL")]); // SET with option keywords
    c16_kw_set_get, "C16", experimental, 64, plain, 1500 => c16::diff(b"SET", &[A::S(1), A::S(1), A::L(b"GET")]); // SET with option keywords
    c16_kw_set_exat, "C16", experimental, 64, plain, 1500 => c16::diff(b"SET", &[A::S(1), A::S(1), A::L(b"EXAT"), A::D(2)]); // SET with option keywords
    c16_kw_set_pxat, "C16", experimental, 64, plain, 1500 => c16::diff(b"SET", &[A::S(1), A::S(1), A::L(b"pxat"), A::D(2)]); // SET with option keywords
    c16_kw_getex_persist, "C16", experimental, 64, plain, 1500 => c16::diff(b"GETEX", &[A::S(1), A::L(b"PERSIST")]); // GETEX with option keywords
    c16_kw_getex_ex, "C16", experimental, 64, plain, 1500 => c16::diff(b"GETEX", &[A::S(1), A::L(b"EX"), A::D(2)]); // GETEX with option keywords
    c16_kw_scan_match, "C16", experimental, 64, plain, 1500 => c16::diff(b"SCAN", &[A::D(1), A::L(b"MATCH"), A::S(1)]); // SCAN with option keywords
    c16_kw_scan_count, "C16", experimental, 64, plain, 1500 => c16::diff(b"SCAN", &[A::D(1), A::L(b"COUNT"), A::D(2)]); // SCAN with option keywords
    c16_kw_zrange_ws, "C16", experimental, 64, plain, 1500 => c16::diff(b"ZRANGE", &[A::S(1), A::D(1), A::D(1), A::L(b"WITHSCORES")]); // ZRANGE with option keywords
    c16_kw_zrangebyscore_limit, "C16", experimental, 64, plain, 1500 => c16::diff(b"ZRANGEBYSCORE", &[A::S(1), A::D(1), A::D(1), A::L(b"LIMIT"), A::D(1), A::D(1)]); // ZRANGEBYSCORE with option keywords
    c16_kw_zadd_nx_ch, "C16", experimental, 64, plain, 1500 => c16::diff(b"ZADD", &[A::S(1), A::L(b"NX"), A::L(b"CH"), A::D(2), A::S(1)]); // ZADD with option keywords
    c16_kw_lmove, "C16", experimental, 64, plain, 1500 => c16::diff(b"LMOVE", &[A::S(1), A::S(1), A::L(b"LEFT"), A::L(b"right")]); // LMOVE with option keywords
    c16_kw_expire_nx_xx, "C16", experimental, 64, plain, 1500 => c16::diff(b"EXPIRE", &[A::S(1), A::D(2), A::L(b"NX"), A::L(b"XX")]); // EXPIRE with option keywords
    c16_kw_eval, "C16", experimental, 64, plain, 1500 => c16::diff(b"EVAL", &[A::S(2), A::D(1), A::S(1)]); // EVAL with option keywords
    c16_kw_config_get, "C16", experimental, 64, plain, 1500 => c16::diff(b"CONFIG", &[A::L(b"GET"), A::S(2)]); // CONFIG with option keywords
    c16_kw_client_setname, "C16", experimental, 64, plain, 1500 => c16::diff(b"CLIENT", &[A::L(b"SETNAME"), A::S(2)]); // CLIENT with option keywords
    c16_kw_object_encoding, "C16", experimental, 64, plain, 1500 => c16::diff(b"OBJECT", &[A::L(b"ENCODING"), A::S(1)]); // OBJECT with option keywords
    c16_kw_script_load, "C16", experimental, 64, plain, 1500 => c16::diff(b"SCRIPT", &[A::L(b"LOAD"), A::S(2)]); // SCRIPT with option keywords
    c16_kw_acl_setuser, "C16", experimental, 64, plain, 1500 => c16::diff(b"ACL", &[A::L(b"SETUSER"), A::S(2)]); // ACL with option keywords
    c16_kw_acl_load, "C16", experimental, 64, plain, 1500 => c16::diff(b"ACL", &[A::L(b"LOAD")]); // ACL with option keywords
    c16_kw_acl_save, "C16", experimental, 64, plain, 1500 => c16::diff(b"ACL", &[A::L(b"SAVE")]); // ACL with option keywords
    c16_kw_debug_sleep, "C16", experimental, 64, plain, 1500 => c16::diff(b"DEBUG", &[A::L(b"SLEEP"), A::D(1)]); // DEBUG with option keywords
    c16_kw_incrbyfloat, "C16", experimental, 64, plain, 1500 => c16::diff(b"INCRBYFLOAT", &[A::S(1), A::D(2)]); // INCRBYFLOAT with option keywords
    c16_kw_setrange, "C16", experimental, 64, plain, 1500 => c16::diff(b"SETRANGE", &[A::S(1), A::D(2), A::S(1)]); // SETRANGE with option keywords
    c16_kw_hincrby, "C16", experimental, 64, plain, 1500 => c16::diff(b"HINCRBY", &[A::S(1), A::S(1), A::D(2)]); // HINCRBY with option keywords
    c16_kw_select, "C16", experimental, 64, plain, 1500 => c16::diff(b"SELECT", &[A::D(2)]); // SELECT with option keywords
    c16_kw_spop_count, "C16", experimental, 64, plain, 1500 => c16::diff(b"SPOP", &[A::S(1), A::D(1)]); // SPOP with option keywords
    c14_twin, "C14", thorough, 160, plain, 600 => c14::twin();
    c14_roundtrip, "C14", experimental, 160, plain, 900 => c14::roundtrip(); // segment and WAL images written by the current tree read back by the current tree
    c14_seg_header_0_6, "C14", experimental, 160, plain, 1800 => c14::segment_damage(0, 6); // header bytes 0..6: one byte XOR any non-zero mask
    c14_seg_header_6_10, "C14", experimental, 160, plain, 1800 => c14::segment_damage(6, 10); // header bytes 6..10: one byte XOR any non-zero mask
    c14_seg_header_10_18, "C14", experimental, 160, plain, 1800 => c14::segment_damage(10, 18); // header bytes 10..18: one byte XOR any non-zero mask
    c14_seg_header_18_26, "C14", experimental, 160, plain, 1800 => c14::segment_damage(18, 26); // header bytes 18..26: one byte XOR any non-zero mask
    c14_seg_header_26_30, "C14", experimental, 160, plain, 1800 => c14::segment_damage(26, 30); // header bytes 26..30: one byte XOR any non-zero mask
    c14_seg_header_30_40, "C14", experimental, 160, plain, 1800 => c14::segment_damage(30, 40); // header bytes 30..40: one byte XOR any non-zero mask
    c14_seg_footer_119_123, "C14", experimental, 160, plain, 1800 => c14::segment_damage(119, 123); // footer bytes 119..123: one byte XOR any non-zero mask
    c14_seg_footer_123_139, "C14", experimental, 160, plain, 1800 => c14::segment_damage(123, 139); // footer bytes 123..139: one byte XOR any non-zero mask
    c14_seg_footer_139_143, "C14", experimental, 160, plain, 1800 => c14::segment_damage(139, 143); // footer bytes 139..143: one byte XOR any non-zero mask
    c14_seg_record_40_44, "C14", experimental, 160, plain, 3000 => c14::segment_damage(40, 44); // record-area bytes 40..44: one byte XOR any non-zero mask
    c14_seg_record_44_48, "C14", experimental, 160, plain, 3000 => c14::segment_damage(44, 48); // record-area bytes 44..48: one byte XOR any non-zero mask
    c14_seg_record_115_119, "C14", experimental, 160, plain, 3000 => c14::segment_damage(115, 119); // record-area bytes 115..119: one byte XOR any non-zero mask
    c19_ring_l0_lookup_rf1, "C19", quick, 10, ring, 600 => c19::ring(0, 0, 1); // layout 0 (3 members x 2 virtual nodes, sorted positions concrete), key position = any u64, rf = 1: lookup
    c19_ring_l0_lookup_rf2, "C19", experimental, 10, ring, 900 => c19::ring(0, 0, 2); // layout 0 (3 members x 2 virtual nodes, sorted positions concrete), key position = any u64, rf = 2: lookup
    c19_ring_l0_lookup_rf3, "C19", experimental, 10, ring, 900 => c19::ring(0, 0, 3); // layout 0 (3 members x 2 virtual nodes, sorted positions concrete), key position = any u64, rf = 3: lookup
    c19_ring_l0_lookup_rf4, "C19", experimental, 10, ring, 900 => c19::ring(0, 0, 4); // layout 0 (3 members x 2 virtual nodes, sorted positions concrete), key position = any u64, rf = 4: lookup
    c19_ring_l0_gossip_rf1, "C19", quick, 10, ring, 600 => c19::ring(0, 1, 1); // layout 0 (3 members x 2 virtual nodes, sorted positions concrete), key position = any u64, rf = 1: gossip
    c19_ring_l0_gossip_rf2, "C19", experimental, 10, ring, 900 => c19::ring(0, 1, 2); // layout 0 (3 members x 2 virtual nodes, sorted positions concrete), key position = any u64, rf = 2: gossip
    c19_ring_l0_gossip_rf3, "C19", experimental, 10, ring, 900 => c19::ring(0, 1, 3); // layout 0 (3 members x 2 virtual nodes, sorted positions concrete), key position = any u64, rf = 3: gossip
    c19_ring_l0_gossip_rf4, "C19", experimental, 10, ring, 900 => c19::ring(0, 1, 4); // layout 0 (3 members x 2 virtual nodes, sorted positions concrete), key position = any u64, rf = 4: gossip
    c19_ring_l0_removal_rf1, "C19", experimental, 10, ring, 900 => c19::ring(0, 2, 1); // layout 0 (3 members x 2 virtual nodes, sorted positions concrete), key position = any u64, rf = 1: removal
    c19_ring_l0_removal_rf2, "C19", experimental, 10, ring, 900 => c19::ring(0, 2, 2); // layout 0 (3 members x 2 virtual nodes, sorted positions concrete), key position = any u64, rf = 2: removal
    c19_ring_l0_removal_rf3, "C19", experimental, 10, ring, 900 => c19::ring(0, 2, 3); // layout 0 (3 members x 2 virtual nodes, sorted positions concrete), key position = any u64, rf = 3: removal
    c19_ring_l0_removal_rf4, "C19", experimental, 10, ring, 900 => c19::ring(0, 2, 4); // layout 0 (3 members x 2 virtual nodes, sorted positions concrete), key position = any u64, rf = 4: removal
    c19_ring_l1_lookup_rf1, "C19", quick, 10, ring, 600 => c19::ring(1, 0, 1); // layout 1 (3 members x 2 virtual nodes, sorted positions concrete), key position = any u64, rf = 1: lookup
    c19_ring_l1_lookup_rf2, "C19", experimental, 10, ring, 900 => c19::ring(1, 0, 2); // layout 1 (3 members x 2 virtual nodes, sorted positions concrete), key position = any u64, rf = 2: lookup
    c19_ring_l1_lookup_rf3, "C19", experimental, 10, ring, 900 => c19::ring(1, 0, 3); // layout 1 (3 members x 2 virtual nodes, sorted positions concrete), key position = any u64, rf = 3: lookup
    c19_ring_l1_lookup_rf4, "C19", experimental, 10, ring, 900 => c19::ring(1, 0, 4); // layout 1 (3 members x 2 virtual nodes, sorted positions concrete), key position = any u64, rf = 4: lookup
    c19_ring_l1_gossip_rf1, "C19", quick, 10, ring, 600 => c19::ring(1, 1, 1); // layout 1 (3 members x 2 virtual nodes, sorted positions concrete), key position = any u64, rf = 1: gossip
    c19_ring_l1_gossip_rf2, "C19", experimental, 10, ring, 900 => c19::ring(1, 1, 2); // layout 1 (3 members x 2 virtual nodes, sorted positions concrete), key position = any u64, rf = 2: gossip
    c19_ring_l1_gossip_rf3, "C19", experimental, 10, ring, 900 => c19::ring(1, 1, 3); // layout 1 (3 members x 2 virtual nodes, sorted positions concrete), key position = any u64, rf = 3: gossip
    c19_ring_l1_gossip_rf4, "C19", experimental, 10, ring, 900 => c19::ring(1, 1, 4); // layout 1 (3 members x 2 virtual nodes, sorted positions concrete), key position = any u64, rf = 4: gossip
    c19_ring_l1_removal_rf1, "C19", experimental, 10, ring, 900 => c19::ring(1, 2, 1); // layout 1 (3 members x 2 virtual nodes, sorted positions concrete), key position = any u64, rf = 1: removal
    c19_ring_l1_removal_rf2, "C19", experimental, 10, ring, 900 => c19::ring(1, 2, 2); // layout 1 (3 members x 2 virtual nodes, sorted positions concrete), key position = any u64, rf = 2: removal
    c19_ring_l1_removal_rf3, "C19", experimental, 10, ring, 900 => c19::ring(1, 2, 3); // layout 1 (3 members x 2 virtual nodes, sorted positions concrete), key position = any u64, rf = 3: removal
    c19_ring_l1_removal_rf4, "C19", experimental, 10, ring, 900 => c19::ring(1, 2, 4); // layout 1 (3 members x 2 virtual nodes, sorted positions concrete), key position = any u64, rf = 4: removal
    c19_ring_l2_lookup_rf1, "C19", quick, 10, ring, 600 => c19::ring(2, 0, 1); // layout 2 (3 members x 2 virtual nodes, sorted positions concrete), key position = any u64, rf = 1: lookup
    c19_ring_l2_lookup_rf2, "C19", experimental, 10, ring, 900 => c19::ring(2, 0, 2); // layout 2 (3 members x 2 virtual nodes, sorted positions concrete), key position = any u64, rf = 2: lookup
    c19_ring_l2_lookup_rf3, "C19", experimental, 10, ring, 900 => c19::ring(2, 0, 3); // layout 2 (3 members x 2 virtual nodes, sorted positions concrete), key position = any u64, rf = 3: lookup
    c19_ring_l2_lookup_rf4, "C19", experimental, 10, ring, 900 => c19::ring(2, 0, 4); // layout 2 (3 members x 2 virtual nodes, sorted positions concrete), key position = any u64, rf = 4: lookup
    c19_ring_l2_gossip_rf1, "C19", quick, 10, ring, 600 => c19::ring(2, 1, 1); // layout 2 (3 members x 2 virtual nodes, sorted positions concrete), key position = any u64, rf = 1: gossip
    c19_ring_l2_gossip_rf2, "C19", experimental, 10, ring, 900 => c19::ring(2, 1, 2); // layout 2 (3 members x 2 virtual nodes, sorted positions concrete), key position = any u64, rf = 2: gossip
    c19_ring_l2_gossip_rf3, "C19", experimental, 10, ring, 900 => c19::ring(2, 1, 3); // layout 2 (3 members x 2 virtual nodes, sorted positions concrete), key position = any u64, rf = 3: gossip
    c19_ring_l2_gossip_rf4, "C19", experimental, 10, ring, 900 => c19::ring(2, 1, 4); // layout 2 (3 members x 2 virtual nodes, sorted positions concrete), key position = any u64, rf = 4: gossip
    c19_ring_l2_removal_rf1, "C19", experimental, 10, ring, 900 => c19::ring(2, 2, 1); // layout 2 (3 members x 2 virtual nodes, sorted positions concrete), key position = any u64, rf = 1: removal
    c19_ring_l2_removal_rf2, "C19", experimental, 10, ring, 900 => c19::ring(2, 2, 2); // layout 2 (3 members x 2 virtual nodes, sorted positions concrete), key position = any u64, rf = 2: removal
    c19_ring_l2_removal_rf3, "C19", experimental, 10, ring, 900 => c19::ring(2, 2, 3); // layout 2 (3 members x 2 virtual nodes, sorted positions concrete), key position = any u64, rf = 3: removal
    c19_ring_l2_removal_rf4, "C19", experimental, 10, ring, 900 => c19::ring(2, 2, 4); // layout 2 (3 members x 2 virtual nodes, sorted positions concrete), key position = any u64, rf = 4: removal
    c10_twin, "C10", quick, 8, plain, 300 => c10::twin();
    c10_decode_total_0, "C10", thorough, 8, plain, 600 => c10::decode_total::<0, 16>(); // arbitrary bytes with declared payload length 0
    c10_roundtrip_0, "C10", thorough, 8, plain, 600 => c10::roundtrip::<0, 16>(); // any stamp, any payload of 0 byte(s)
    c10_decode_total_1, "C10", experimental, 8, plain, 600 => c10::decode_total::<1, 17>(); // arbitrary bytes with declared payload length 1
    c10_roundtrip_1, "C10", thorough, 8, plain, 600 => c10::roundtrip::<1, 17>(); // any stamp, any payload of 1 byte(s)
    c10_decode_total_2, "C10", thorough, 8, plain, 600 => c10::decode_total::<2, 18>(); // arbitrary bytes with declared payload length 2
    c10_roundtrip_2, "C10", thorough, 8, plain, 600 => c10::roundtrip::<2, 18>(); // any stamp, any payload of 2 byte(s)
    c10_decode_total_3, "C10", experimental, 8, plain, 600 => c10::decode_total::<3, 19>(); // arbitrary bytes with declared payload length 3
    c10_roundtrip_3, "C10", thorough, 8, plain, 600 => c10::roundtrip::<3, 19>(); // any stamp, any payload of 3 byte(s)
    c10_decode_total_4, "C10", thorough, 8, plain, 600 => c10::decode_total::<4, 20>(); // arbitrary bytes with declared payload length 4
    c10_roundtrip_4, "C10", thorough, 8, plain, 600 => c10::roundtrip::<4, 20>(); // any stamp, any payload of 4 byte(s)
    c10_truncation_2_cut0, "C10", thorough, 8, plain, 600 => c10::truncation::<2, 18, 0>(); // entry with a 2-byte payload cut to 0 of 18 bytes
    c10_truncation_2_cut3, "C10", thorough, 8, plain, 600 => c10::truncation::<2, 18, 3>(); // entry with a 2-byte payload cut to 3 of 18 bytes
    c10_truncation_2_cut4, "C10", thorough, 8, plain, 600 => c10::truncation::<2, 18, 4>(); // entry with a 2-byte payload cut to 4 of 18 bytes
    c10_truncation_2_cut11, "C10", thorough, 8, plain, 600 => c10::truncation::<2, 18, 11>(); // entry with a 2-byte payload cut to 11 of 18 bytes
    c10_truncation_2_cut12, "C10", thorough, 8, plain, 600 => c10::truncation::<2, 18, 12>(); // entry with a 2-byte payload cut to 12 of 18 bytes
    c10_truncation_2_cut15, "C10", quick, 8, plain, 600 => c10::truncation::<2, 18, 15>(); // entry with a 2-byte payload cut to 15 of 18 bytes
    c10_truncation_2_cut16, "C10", quick, 8, plain, 600 => c10::truncation::<2, 18, 16>(); // entry with a 2-byte payload cut to 16 of 18 bytes
    c10_truncation_2_cut17, "C10", quick, 8, plain, 600 => c10::truncation::<2, 18, 17>(); // entry with a 2-byte payload cut to 17 of 18 bytes
    c10_bitflip_stamp_1, "C10", quick, 8, plain, 1800 => c10::bitflip::<1, 17>(1); // one bit of the stamp field flipped, payload 1 byte(s)
    c10_bitflip_stamp_2, "C10", experimental, 8, plain, 1800 => c10::bitflip::<2, 18>(1); // one bit of the stamp field flipped, payload 2 byte(s)
    c10_bitflip_crc_1, "C10", thorough, 8, plain, 1800 => c10::bitflip::<1, 17>(2); // one bit of the crc field flipped, payload 1 byte(s)
    c10_bitflip_crc_2, "C10", experimental, 8, plain, 1800 => c10::bitflip::<2, 18>(2); // one bit of the crc field flipped, payload 2 byte(s)
    c10_bitflip_data_1, "C10", thorough, 8, plain, 1800 => c10::bitflip::<1, 17>(3); // one bit of the data field flipped, payload 1 byte(s)
    c10_bitflip_data_2, "C10", experimental, 8, plain, 1800 => c10::bitflip::<2, 18>(3); // one bit of the data field flipped, payload 2 byte(s)
    c10_bitflip_len_1, "C10", thorough, 8, plain, 1800 => c10::bitflip::<1, 17>(0); // one bit of the len field flipped, payload 1 byte(s)
    c10_bitflip_len_2, "C10", experimental, 8, plain, 1800 => c10::bitflip::<2, 18>(0); // one bit of the len field flipped, payload 2 byte(s)
    c16_name_acl, "C16", quick, 64, plain, 900 => c16::diff(b"ACL", &[]); // frame consisting of the command name ACL alone
    c16_name_append, "C16", thorough, 64, plain, 900 => c16::diff(b"APPEND", &[]); // frame consisting of the command name APPEND alone
    c16_name_auth, "C16", thorough, 64, plain, 900 => c16::diff(b"AUTH", &[]); // frame consisting of the command name AUTH alone
    c16_name_client, "C16", thorough, 64, plain, 900 => c16::diff(b"CLIENT", &[]); // frame consisting of the command name CLIENT alone
    c16_name_command, "C16", thorough, 64, plain, 900 => c16::diff(b"COMMAND", &[]); // frame consisting of the command name COMMAND alone
    c16_name_config, "C16", thorough, 64, plain, 900 => c16::diff(b"CONFIG", &[]); // frame consisting of the command name CONFIG alone
    c16_name_dbsize, "C16", thorough, 64, plain, 900 => c16::diff(b"DBSIZE", &[]); // frame consisting of the command name DBSIZE alone
    c16_name_debug, "C16", thorough, 64, plain, 900 => c16::diff(b"DEBUG", &[]); // frame consisting of the command name DEBUG alone
    c16_name_decr, "C16", thorough, 64, plain, 900 => c16::diff(b"DECR", &[]); // frame consisting of the command name DECR alone
    c16_name_decrby, "C16", thorough, 64, plain, 900 => c16::diff(b"DECRBY", &[]); // frame consisting of the command name DECRBY alone
    c16_name_del, "C16", thorough, 64, plain, 900 => c16::diff(b"DEL", &[]); // frame consisting of the command name DEL alone
    c16_name_discard, "C16", thorough, 64, plain, 900 => c16::diff(b"DISCARD", &[]); // frame consisting of the command name DISCARD alone
    c16_name_echo, "C16", thorough, 64, plain, 900 => c16::diff(b"ECHO", &[]); // frame consisting of the command name ECHO alone
    c16_name_eval, "C16", thorough, 64, plain, 900 => c16::diff(b"EVAL", &[]); // frame consisting of the command name EVAL alone
    c16_name_evalsha, "C16", thorough, 64, plain, 900 => c16::diff(b"EVALSHA", &[]); // frame consisting of the command name EVALSHA alone
    c16_name_exec, "C16", thorough, 64, plain, 900 => c16::diff(b"EXEC", &[]); // frame consisting of the command name EXEC alone
    c16_name_exists, "C16", thorough, 64, plain, 900 => c16::diff(b"EXISTS", &[]); // frame consisting of the command name EXISTS alone
    c16_name_expire, "C16", thorough, 64, plain, 900 => c16::diff(b"EXPIRE", &[]); // frame consisting of the command name EXPIRE alone
    c16_name_expireat, "C16", thorough, 64, plain, 900 => c16::diff(b"EXPIREAT", &[]); // frame consisting of the command name EXPIREAT alone
    c16_name_expiretime, "C16", thorough, 64, plain, 900 => c16::diff(b"EXPIRETIME", &[]); // frame consisting of the command name EXPIRETIME alone
    c16_name_flushall, "C16", thorough, 64, plain, 900 => c16::diff(b"FLUSHALL", &[]); // frame consisting of the command name FLUSHALL alone
    c16_name_flushdb, "C16", thorough, 64, plain, 900 => c16::diff(b"FLUSHDB", &[]); // frame consisting of the command name FLUSHDB alone
    c16_name_function, "C16", thorough, 64, plain, 900 => c16::diff(b"FUNCTION", &[]); // frame consisting of the command name FUNCTION alone
    c16_name_get, "C16", quick, 64, plain, 900 => c16::diff(b"GET", &[]); // frame consisting of the command name GET alone
    c16_name_getbit, "C16", thorough, 64, plain, 900 => c16::diff(b"GETBIT", &[]); // frame consisting of the command name GETBIT alone
    c16_name_getdel, "C16", thorough, 64, plain, 900 => c16::diff(b"GETDEL", &[]); // frame consisting of the command name GETDEL alone
    c16_name_getex, "C16", thorough, 64, plain, 900 => c16::diff(b"GETEX", &[]); // frame consisting of the command name GETEX alone
    c16_name_getrange, "C16", thorough, 64, plain, 900 => c16::diff(b"GETRANGE", &[]); // frame consisting of the command name GETRANGE alone
    c16_name_getset, "C16", thorough, 64, plain, 900 => c16::diff(b"GETSET", &[]); // frame consisting of the command name GETSET alone
    c16_name_hdel, "C16", thorough, 64, plain, 900 => c16::diff(b"HDEL", &[]); // frame consisting of the command name HDEL alone
    c16_name_hexists, "C16", thorough, 64, plain, 900 => c16::diff(b"HEXISTS", &[]); // frame consisting of the command name HEXISTS alone
    c16_name_hget, "C16", thorough, 64, plain, 900 => c16::diff(b"HGET", &[]); // frame consisting of the command name HGET alone
    c16_name_hgetall, "C16", thorough, 64, plain, 900 => c16::diff(b"HGETALL", &[]); // frame consisting of the command name HGETALL alone
    c16_name_hincrby, "C16", thorough, 64, plain, 900 => c16::diff(b"HINCRBY", &[]); // frame consisting of the command name HINCRBY alone
    c16_name_hkeys, "C16", thorough, 64, plain, 900 => c16::diff(b"HKEYS", &[]); // frame consisting of the command name HKEYS alone
    c16_name_hlen, "C16", thorough, 64, plain, 900 => c16::diff(b"HLEN", &[]); // frame consisting of the command name HLEN alone
    c16_name_hscan, "C16", thorough, 64, plain, 900 => c16::diff(b"HSCAN", &[]); // frame consisting of the command name HSCAN alone
    c16_name_hset, "C16", thorough, 64, plain, 900 => c16::diff(b"HSET", &[]); // frame consisting of the command name HSET alone
    c16_name_hvals, "C16", thorough, 64, plain, 900 => c16::diff(b"HVALS", &[]); // frame consisting of the command name HVALS alone
    c16_name_incr, "C16", thorough, 64, plain, 900 => c16::diff(b"INCR", &[]); // frame consisting of the command name INCR alone
    c16_name_incrby, "C16", thorough, 64, plain, 900 => c16::diff(b"INCRBY", &[]); // frame consisting of the command name INCRBY alone
    c16_name_incrbyfloat, "C16", thorough, 64, plain, 900 => c16::diff(b"INCRBYFLOAT", &[]); // frame consisting of the command name INCRBYFLOAT alone
    c16_name_info, "C16", thorough, 64, plain, 900 => c16::diff(b"INFO", &[]); // frame consisting of the command name INFO alone
    c16_name_keys, "C16", thorough, 64, plain, 900 => c16::diff(b"KEYS", &[]); // frame consisting of the command name KEYS alone
    c16_name_lindex, "C16", thorough, 64, plain, 900 => c16::diff(b"LINDEX", &[]); // frame consisting of the command name LINDEX alone
    c16_name_llen, "C16", thorough, 64, plain, 900 => c16::diff(b"LLEN", &[]); // frame consisting of the command name LLEN alone
    c16_name_lmove, "C16", thorough, 64, plain, 900 => c16::diff(b"LMOVE", &[]); // frame consisting of the command name LMOVE alone
    c16_name_lpop, "C16", thorough, 64, plain, 900 => c16::diff(b"LPOP", &[]); // frame consisting of the command name LPOP alone
    c16_name_lpush, "C16", quick, 64, plain, 900 => c16::diff(b"LPUSH", &[]); // frame consisting of the command name LPUSH alone
    c16_name_lrange, "C16", thorough, 64, plain, 900 => c16::diff(b"LRANGE", &[]); // frame consisting of the command name LRANGE alone
    c16_name_lset, "C16", thorough, 64, plain, 900 => c16::diff(b"LSET", &[]); // frame consisting of the command name LSET alone
    c16_name_ltrim, "C16", thorough, 64, plain, 900 => c16::diff(b"LTRIM", &[]); // frame consisting of the command name LTRIM alone
    c16_name_mget, "C16", thorough, 64, plain, 900 => c16::diff(b"MGET", &[]); // frame consisting of the command name MGET alone
    c16_name_mset, "C16", thorough, 64, plain, 900 => c16::diff(b"MSET", &[]); // frame consisting of the command name MSET alone
    c16_name_msetnx, "C16", thorough, 64, plain, 900 => c16::diff(b"MSETNX", &[]); // frame consisting of the command name MSETNX alone
    c16_name_multi, "C16", thorough, 64, plain, 900 => c16::diff(b"MULTI", &[]); // frame consisting of the command name MULTI alone
    c16_name_object, "C16", thorough, 64, plain, 900 => c16::diff(b"OBJECT", &[]); // frame consisting of the command name OBJECT alone
    c16_name_persist, "C16", thorough, 64, plain, 900 => c16::diff(b"PERSIST", &[]); // frame consisting of the command name PERSIST alone
    c16_name_pexpire, "C16", thorough, 64, plain, 900 => c16::diff(b"PEXPIRE", &[]); // frame consisting of the command name PEXPIRE alone
    c16_name_pexpireat, "C16", thorough, 64, plain, 900 => c16::diff(b"PEXPIREAT", &[]); // frame consisting of the command name PEXPIREAT alone
    c16_name_pexpiretime, "C16", thorough, 64, plain, 900 => c16::diff(b"PEXPIRETIME", &[]); // frame consisting of the command name PEXPIRETIME alone
    c16_name_ping, "C16", thorough, 64, plain, 900 => c16::diff(b"PING", &[]); // frame consisting of the command name PING alone
    c16_name_psetex, "C16", thorough, 64, plain, 900 => c16::diff(b"PSETEX", &[]); // frame consisting of the command name PSETEX alone
    c16_name_pttl, "C16", thorough, 64, plain, 900 => c16::diff(b"PTTL", &[]); // frame consisting of the command name PTTL alone
    c16_name_randomkey, "C16", thorough, 64, plain, 900 => c16::diff(b"RANDOMKEY", &[]); // frame consisting of the command name RANDOMKEY alone
    c16_name_rename, "C16", thorough, 64, plain, 900 => c16::diff(b"RENAME", &[]); // frame consisting of the command name RENAME alone
    c16_name_renamenx, "C16", thorough, 64, plain, 900 => c16::diff(b"RENAMENX", &[]); // frame consisting of the command name RENAMENX alone
    c16_name_rpop, "C16", thorough, 64, plain, 900 => c16::diff(b"RPOP", &[]); // frame consisting of the command name RPOP alone
    c16_name_rpoplpush, "C16", thorough, 64, plain, 900 => c16::diff(b"RPOPLPUSH", &[]); // frame consisting of the command name RPOPLPUSH alone
    c16_name_rpush, "C16", thorough, 64, plain, 900 => c16::diff(b"RPUSH", &[]); // frame consisting of the command name RPUSH alone
    c16_name_sadd, "C16", thorough, 64, plain, 900 => c16::diff(b"SADD", &[]); // frame consisting of the command name SADD alone
    c16_name_scan, "C16", thorough, 64, plain, 900 => c16::diff(b"SCAN", &[]); // frame consisting of the command name SCAN alone
    c16_name_scard, "C16", thorough, 64, plain, 900 => c16::diff(b"SCARD", &[]); // frame consisting of the command name SCARD alone
    c16_name_script, "C16", thorough, 64, plain, 900 => c16::diff(b"SCRIPT", &[]); // frame consisting of the command name SCRIPT alone
    c16_name_select, "C16", thorough, 64, plain, 900 => c16::diff(b"SELECT", &[]); // frame consisting of the command name SELECT alone
    c16_name_set, "C16", thorough, 64, plain, 900 => c16::diff(b"SET", &[]); // frame consisting of the command name SET alone
    c16_name_setbit, "C16", thorough, 64, plain, 900 => c16::diff(b"SETBIT", &[]); // frame consisting of the command name SETBIT alone
    c16_name_setex, "C16", quick, 64, plain, 900 => c16::diff(b"SETEX", &[]); // frame consisting of the command name SETEX alone
    c16_name_setnx, "C16", thorough, 64, plain, 900 => c16::diff(b"SETNX", &[]); // frame consisting of the command name SETNX alone
    c16_name_setrange, "C16", thorough, 64, plain, 900 => c16::diff(b"SETRANGE", &[]); // frame consisting of the command name SETRANGE alone
    c16_name_sismember, "C16", thorough, 64, plain, 900 => c16::diff(b"SISMEMBER", &[]); // frame consisting of the command name SISMEMBER alone
    c16_name_smembers, "C16", thorough, 64, plain, 900 => c16::diff(b"SMEMBERS", &[]); // frame consisting of the command name SMEMBERS alone
    c16_name_sort, "C16", thorough, 64, plain, 900 => c16::diff(b"SORT", &[]); // frame consisting of the command name SORT alone
    c16_name_spop, "C16", thorough, 64, plain, 900 => c16::diff(b"SPOP", &[]); // frame consisting of the command name SPOP alone
    c16_name_srem, "C16", thorough, 64, plain, 900 => c16::diff(b"SREM", &[]); // frame consisting of the command name SREM alone
    c16_name_strlen, "C16", thorough, 64, plain, 900 => c16::diff(b"STRLEN", &[]); // frame consisting of the command name STRLEN alone
    c16_name_substr, "C16", thorough, 64, plain, 900 => c16::diff(b"SUBSTR", &[]); // frame consisting of the command name SUBSTR alone
    c16_name_time, "C16", thorough, 64, plain, 900 => c16::diff(b"TIME", &[]); // frame consisting of the command name TIME alone
    c16_name_ttl, "C16", thorough, 64, plain, 900 => c16::diff(b"TTL", &[]); // frame consisting of the command name TTL alone
    c16_name_type, "C16", thorough, 64, plain, 900 => c16::diff(b"TYPE", &[]); // frame consisting of the command name TYPE alone
    c16_name_unlink, "C16", thorough, 64, plain, 900 => c16::diff(b"UNLINK", &[]); // frame consisting of the command name UNLINK alone
    c16_name_unwatch, "C16", thorough, 64, plain, 900 => c16::diff(b"UNWATCH", &[]); // frame consisting of the command name UNWATCH alone
    c16_name_wait, "C16", thorough, 64, plain, 900 => c16::diff(b"WAIT", &[]); // frame consisting of the command name WAIT alone
    c16_name_watch, "C16", thorough, 64, plain, 900 => c16::diff(b"WATCH", &[]); // frame consisting of the command name WATCH alone
    c16_name_zadd, "C16", thorough, 64, plain, 900 => c16::diff(b"ZADD", &[]); // frame consisting of the command name ZADD alone
    c16_name_zcard, "C16", thorough, 64, plain, 900 => c16::diff(b"ZCARD", &[]); // frame consisting of the command name ZCARD alone
    c16_name_zcount, "C16", thorough, 64, plain, 900 => c16::diff(b"ZCOUNT", &[]); // frame consisting of the command name ZCOUNT alone
    c16_name_zrange, "C16", thorough, 64, plain, 900 => c16::diff(b"ZRANGE", &[]); // frame consisting of the command name ZRANGE alone
    c16_name_zrangebyscore, "C16", thorough, 64, plain, 900 => c16::diff(b"ZRANGEBYSCORE", &[]); // frame consisting of the command name ZRANGEBYSCORE alone
    c16_name_zrank, "C16", thorough, 64, plain, 900 => c16::diff(b"ZRANK", &[]); // frame consisting of the command name ZRANK alone
    c16_name_zrem, "C16", thorough, 64, plain, 900 => c16::diff(b"ZREM", &[]); // frame consisting of the command name ZREM alone
    c16_name_zrevrange, "C16", thorough, 64, plain, 900 => c16::diff(b"ZREVRANGE", &[]); // frame consisting of the command name ZREVRANGE alone
    c16_name_zscan, "C16", thorough, 64, plain, 900 => c16::diff(b"ZSCAN", &[]); // frame consisting of the command name ZSCAN alone
    c16_name_zscore, "C16", thorough, 64, plain, 900 => c16::diff(b"ZSCORE", &[]); // frame consisting of the command name ZSCORE alone
    c16_gen_get_1, "C16", experimental, 64, plain, 1200 => c16::diff(b"GET", &[A::S(1)]); // GET with 1 symbolic one-byte argument(s): no verdict in 20 min
    c16_gen_setex_3, "C16", experimental, 64, plain, 1200 => c16::diff(b"SETEX", &[A::S(1), A::S(1), A::S(1)]); // SETEX with 3 symbolic one-byte argument(s): no verdict in 20 min
    c16_gen_expire_2, "C16", experimental, 64, plain, 1200 => c16::diff(b"EXPIRE", &[A::S(1), A::S(1)]); // EXPIRE with 2 symbolic one-byte argument(s): no verdict in 20 min
    c16_gen_acl_1, "C16", experimental, 64, plain, 1200 => c16::diff(b"ACL", &[A::S(1)]); // ACL with 1 symbolic one-byte argument(s): no verdict in 20 min
    c12_twin, "C12", experimental, 40, persist, 900 => c12::twin();
    c12_persist_flush_1, "C12", experimental, 40, persist, 1800 => c12::persistence_flush(1); // StreamingPersistence::flush, 1 buffered update, every store operation Ok / Err / torn
    c12_wbuf_flush_1, "C12", experimental, 40, persist, 1800 => c12::write_buffer_flush(1); // WriteBuffer::flush, 1 buffered update, the put Ok / Err / torn
    c05_twin, "C05", experimental, 8, small, 600 => c05::twin();
    c05_exec_int_incrby_get, "C05", experimental, 8, small, 1500 => c05::exec_equals_sequential(1, 1, 4); // k = one digit; MULTI INCRBY k n; GET k; EXEC vs sequential, n = any i64
    c05_edges, "C05", experimental, 8, small, 1500 => c05::edges(); // nested MULTI, EXEC/DISCARD without MULTI, WATCH inside MULTI, UNWATCH
    c16_arm_get, "C16", thorough, 12, ascii, 1800 => c16::arm(b"GET", 0, 2, 2, c16arm!(GET)); // GET arm of both parsers (S7 extraction), arities 0..=2, arguments of 2 symbolic ASCII bytes
    c04_split_array_5_n0, "C04", quick, 12, alloc, 300 => c15::array(b"5", Some(5), 0, false); // a 5-element command whose '*5' header arrives alone in a read: both decoders must ask for more bytes (codec) / not accept (parser)
    c04_split_array_9_n1, "C04", experimental, 12, alloc, 900 => c15::array(b"9", Some(9), 1, false); // '*9' header + one complete element in the first read
    c13_twin, "C13", experimental, 8, plain, 300 => c13::twin();
    c13_fold_2, "C13", experimental, 8, plain, 900 => c13::fold(2, 0); // 2 LWW updates of one key in the compacted segments: symbolic stamps (two replicas may share a time), bytes, tombstones; tombstone cutoff = any u64
    c13_fold_2_outside, "C13", experimental, 8, plain, 1200 => c13::fold(2, 1); // same + optionally one update of the key in a segment/checkpoint outside the compaction
    c13_fold_3, "C13", experimental, 8, plain, 1800 => c13::fold(3, 0); // 3 LWW updates of one key in the compacted segments
    c08_recovered_then_write, "C08", quick, 6, noexec, 900 => c08::recovered_then_write(); // checkpoint entry (any stamp/author) enters through the ApplyRecoveredState arm (S10), then a local write: its stamp must exceed the recovered one
    c19_ring_l3_lookup_rf2, "C19", experimental, 10, ring, 900 => c19::ring(3, 0, 2); // layout 3 (2 members x 2 virtual nodes), key position = any u64, rf = 2: lookup
    c19_ring_l3_gossip_rf2, "C19", experimental, 10, ring, 900 => c19::ring(3, 1, 2); // layout 3, rf = 2: gossip targets
    c19_ring_l4_lookup_rf2, "C19", experimental, 10, ring, 900 => c19::ring(4, 0, 2); // layout 4 (3 members x 1 virtual node), rf = 2: lookup
    c19_ring_l4_lookup_rf3, "C19", experimental, 10, ring, 900 => c19::ring(4, 0, 3); // layout 4, rf = 3 = cluster size: lookup + join-order independence
    c19_ring_l4_lookup_rf4, "C19", experimental, 10, ring, 900 => c19::ring(4, 0, 4); // layout 4, rf = 4 > cluster size
    c19_ring_l4_gossip_rf3, "C19", experimental, 10, ring, 900 => c19::ring(4, 1, 3); // layout 4, rf = 3: gossip targets
    c19_ring_l4_removal_rf2, "C19", experimental, 10, ring, 900 => c19::ring(4, 2, 2); // layout 4, rf = 2: removal of one member
    c13_fold_2_c2, "C13", thorough, 8, plain, 1200 => c13::fold(2, 0); // as c13_fold_2 with the 2-slot container model
    c13_fold_2_outside_c2, "C13", experimental, 8, plain, 1200 => c13::fold(2, 1); // as c13_fold_2_outside with the 2-slot container model
    c13_fold_3_c2, "C13", experimental, 8, plain, 1800 => c13::fold(3, 0); // 3 updates, 2-slot container model
    c13_twin_c2, "C13", thorough, 8, plain, 300 => c13::twin();
    c08_state_write_c2, "C08", experimental,    6, plain, 600 => c08::state_step(0); // one key, LWW values, arbitrary I-state + arbitrary remote delta, then record_write
    c08_state_delete_c2, "C08", experimental,    6, plain, 600 => c08::state_step(1); // same, then record_delete
    c06_pair_set_set_pre1_c2, "C06", thorough, 6, plain, 1500 => c06::pair(0, 0, 1); // A: SET, B: SET on one key, pre-state common LWW value; symbolic clocks and bytes; deltas cross-delivered once
    c06_pair_set_hset_pre0_c2, "C06", experimental, 6, plain, 1500 => c06::pair(0, 2, 0); // A: SET, B: HSET on one key, pre-state absent; symbolic clocks and bytes; deltas cross-delivered once
    c06_pair_del_hset_pre1_c2, "C06", experimental, 6, plain, 1500 => c06::pair(1, 2, 1); // A: DEL, B: HSET on one key, pre-state common LWW value; symbolic clocks and bytes; deltas cross-delivered once
    c06_pair_hset_hset_pre0_c2, "C06", experimental, 6, plain, 1500 => c06::pair(2, 2, 0); // A: HSET, B: HSET on one key, pre-state absent; symbolic clocks and bytes; deltas cross-delivered once
    c06_pair_hset_hdel_pre0_c2, "C06", experimental, 6, plain, 1500 => c06::pair(2, 3, 0); // A: HSET, B: HDEL on one key, pre-state absent; symbolic clocks and bytes; deltas cross-delivered once
    c06_dup_reorder_c2, "C06", experimental, 6, plain, 1500 => c06::dup_reorder(); // SET/SET with each delta delivered twice
    c18_bucket_order_3_c2, "C18", experimental, 40, hasher, 600 => c18::bucket_order(3); // 3 arbitrary key digests, all 6 orders
    c18_state_order_d0_c2, "C18", quick, 12, hasher, 900 => c18::state_insertion_order(0); // keys a,b with symbolic LWW values, two insertion orders, 1 bucket
    c18_sound_hash_c2, "C18", quick, 52, hasher, 900 => c18::key_digest_sound(2); // hash {f} with equal outer stamp, different field registers
    c07_gcounter_comm_c2, "C07", experimental, 8, plain, 2400 => c07::gcounter_law(0); // 2 replicas, symbolic u32 counts and presence
    c07_gcounter_assoc_c2, "C07", experimental, 8, plain, 2400 => c07::gcounter_law(2); // 2 replicas, symbolic u32 counts and presence
    c07_pncounter_comm_c2, "C07", experimental, 8, plain, 2400 => c07::pncounter_law(0); // 2 replicas, symbolic u32 increments, 1 decrement
    c07_gset_comm_c2, "C07", experimental, 8, plain, 2400 => c07::gset_law(0); // elements subset of {a,b}
    c07_gset_assoc_c2, "C07", experimental, 8, plain, 2400 => c07::gset_law(2); // elements subset of {a,b}
    c07_orset_comm_c2, "C07", experimental, 8, plain, 2400 => c07::orset_law(0); // element a: optional add/remove/re-add per replica
    c07_orset_assoc_c2, "C07", experimental, 8, plain, 2400 => c07::orset_law(2); // element a: optional add/remove/re-add per replica
    c07_vclock_comm_c2, "C07", experimental, 8, plain, 2400 => c07::vclock_law(0); // 2 replicas, 0-2 increments each
    c07_vclock_assoc_c2, "C07", experimental, 8, plain, 2400 => c07::vclock_law(2); // 2 replicas, 0-2 increments each
    c07_hash_f_comm_c2, "C07", experimental, 8, plain, 2400 => c07::hash_law(0, false); // hash over field f: symbolic register, stamps, expiry
    c07_hash_fg_comm_c2, "C07", experimental, 8, plain, 3000 => c07::hash_law(0, true); // hash over fields f,g
    c07_hash_f_idem_c2, "C07", experimental, 8, plain, 2400 => c07::hash_law(1, false); // hash over field f: symbolic register, stamps, expiry
    c07_hash_f_assoc_c2, "C07", experimental, 8, plain, 2400 => c07::hash_law(2, false); // hash over field f: symbolic register, stamps, expiry
    c07_hash_fg_assoc_c2, "C07", experimental, 8, plain, 3000 => c07::hash_law(2, true); // hash over fields f,g
    c07_mixed_comm_c2, "C07", thorough, 8, plain, 2400 => c07::mixed_comm(); // LWW vs hash{f}: type-mismatch path
    c07_mixed_assoc_hlh_c2, "C07", experimental, 8, plain, 2400 => c07::mixed_assoc_hlh(); // (Hash,Lww,Hash), concrete payloads, symbolic distinct stamps
    c06_observers_hset_hdel_causal_preg_c2, "C06", experimental, 6, plain, 2400 => c06::observers(2, 3, true, true); // A: HSET, B: HDEL after seeing A; observers holding hash {g} apply both deltas in both orders
    c06_observers_hset_hdel_causal_c2, "C06", experimental, 6, plain, 2400 => c06::observers(2, 3, true, false); // A: HSET, B: HDEL after seeing A; observers without the key apply both deltas in both orders
    c06_observers_hset_hset_preg_c2, "C06", experimental, 6, plain, 2400 => c06::observers(2, 2, false, true); // A: HSET, B: HSET; observers holding hash {g} apply both deltas in both orders
    c06_observers_set_hset_c2, "C06", experimental, 6, plain, 2400 => c06::observers(0, 2, false, false); // A: SET, B: HSET; observers without the key apply both deltas in both orders
    c06_observers_hset_hdel_preg_c2, "C06", experimental, 6, plain, 2400 => c06::observers(2, 3, false, true); // A: HSET, B: HDEL; observers holding hash {g} apply both deltas in both orders
    c06_glue_hash_f_c2, "C06", experimental, 8, recexec, 900 => c06::glue_hash(false); // glue: hash deltas {f} then {f} through apply_remote_delta_impl (S11), recording executor; served field == replication state
    c06_glue_hash_fg_c2, "C06", experimental, 8, recexec, 1200 => c06::glue_hash(true); // glue: hash deltas {f} then {f,g}
    c06_glue_lww_c2, "C06", experimental, 8, recexec, 900 => c06::glue_lww(); // glue: two LWW deltas (values / tombstones, any stamp order); GET serves what the state says
    c08_clock_flushall_c2, "C08", quick, 6, plain, 600 => c08::clock_monotone(0); // FLUSHALL through record_mutation_post_execute (S11): the clock does not move backwards
    c08_clock_flushdb_c2, "C08", thorough, 6, plain, 600 => c08::clock_monotone(1); // FLUSHDB
    c08_clock_set_c2, "C08", experimental, 6, plain, 600 => c08::clock_monotone(2); // SET of another key
    c08_clock_del_c2, "C08", thorough, 6, plain, 600 => c08::clock_monotone(3); // DEL of an absent key
    c08_clock_hset_c2, "C08", experimental, 6, plain, 600 => c08::clock_monotone(4); // HSET
    c08_clock_hdel_c2, "C08", thorough, 6, plain, 600 => c08::clock_monotone(5); // HDEL of an absent hash
    c08_clock_incr_c2, "C08", experimental, 6, plain, 600 => c08::clock_monotone(6); // INCR (executor holds nothing)
    c08_clock_get_c2, "C08", thorough, 6, plain, 600 => c08::clock_monotone(7); // GET (not a mutation)
    c08_clock_ping_c2, "C08", thorough, 6, plain, 600 => c08::clock_monotone(8); // PING
    c16_armv_get, "C16", experimental, 12, ascii, 900 => c16::arm_spec(b"GET", &[A::S(1)], c16arm!(GET), |a, b| match (a, b) { (Command::Get(x), Command::Get(y)) => x == y, _ => false }); // GET arm of both parsers (S7), 1 argument(s): keys/values 1 symbolic byte, numbers 1 symbolic digit, keywords in any letter case
    c16_armv_set, "C16", experimental, 12, ascii, 900 => c16::arm_spec(b"SET", &[A::S(1), A::S(1)], c16arm!(SET), |a, b| match (a, b) { (Command::Set { key: k1, value: v1, ex: e1, px: p1, exat: a1, pxat: q1, nx: n1, xx: x1, get: g1, keepttl: t1 }, Command::Set { key: k2, value: v2, ex: e2, px: p2, exat: a2, pxat: q2, nx: n2, xx: x2, get: g2, keepttl: t2 }) => k1 == k2 && c16::seq(v1, v2) && e1 == e2 && p1 == p2 && a1 == a2 && q1 == q2 && n1 == n2 && x1 == x2 && g1 == g2 && t1 == t2, _ => false }); // SET arm of both parsers (S7), 2 argument(s): keys/values 1 symbolic byte, numbers 1 symbolic digit, keywords in any letter case
    c16_armv_set_ex, "C16", experimental, 12, ascii, 900 => c16::arm_spec(b"SET", &[A::S(1), A::S(1), A::K(b"EX"), A::D(1)], c16arm!(SET), |a, b| match (a, b) { (Command::Set { key: k1, value: v1, ex: e1, px: p1, exat: a1, pxat: q1, nx: n1, xx: x1, get: g1, keepttl: t1 }, Command::Set { key: k2, value: v2, ex: e2, px: p2, exat: a2, pxat: q2, nx: n2, xx: x2, get: g2, keepttl: t2 }) => k1 == k2 && c16::seq(v1, v2) && e1 == e2 && p1 == p2 && a1 == a2 && q1 == q2 && n1 == n2 && x1 == x2 && g1 == g2 && t1 == t2, _ => false }); // SET arm of both parsers (S7), 4 argument(s): keys/values 1 symbolic byte, numbers 1 symbolic digit, keywords in any letter case
    c16_armv_set_ex_neg, "C16", experimental, 12, ascii, 900 => c16::arm_spec(b"SET", &[A::S(1), A::S(1), A::K(b"EX"), A::N(1)], c16arm!(SET), |a, b| match (a, b) { (Command::Set { key: k1, value: v1, ex: e1, px: p1, exat: a1, pxat: q1, nx: n1, xx: x1, get: g1, keepttl: t1 }, Command::Set { key: k2, value: v2, ex: e2, px: p2, exat: a2, pxat: q2, nx: n2, xx: x2, get: g2, keepttl: t2 }) => k1 == k2 && c16::seq(v1, v2) && e1 == e2 && p1 == p2 && a1 == a2 && q1 == q2 && n1 == n2 && x1 == x2 && g1 == g2 && t1 == t2, _ => false }); // SET arm of both parsers (S7), 4 argument(s): keys/values 1 symbolic byte, first number negative ('-' + 1 symbolic digit), keywords in any letter case
    c16_armv_set_px, "C16", experimental, 12, ascii, 900 => c16::arm_spec(b"SET", &[A::S(1), A::S(1), A::K(b"PX"), A::D(1)], c16arm!(SET), |a, b| match (a, b) { (Command::Set { key: k1, value: v1, ex: e1, px: p1, exat: a1, pxat: q1, nx: n1, xx: x1, get: g1, keepttl: t1 }, Command::Set { key: k2, value: v2, ex: e2, px: p2, exat: a2, pxat: q2, nx: n2, xx: x2, get: g2, keepttl: t2 }) => k1 == k2 && c16::seq(v1, v2) && e1 == e2 && p1 == p2 && a1 == a2 && q1 == q2 && n1 == n2 && x1 == x2 && g1 == g2 && t1 == t2, _ => false }); // SET arm of both parsers (S7), 4 argument(s): keys/values 1 symbolic byte, numbers 1 symbolic digit, keywords in any letter case
    c16_armv_set_px_neg, "C16", experimental, 12, ascii, 900 => c16::arm_spec(b"SET", &[A::S(1), A::S(1), A::K(b"PX"), A::N(1)], c16arm!(SET), |a, b| match (a, b) { (Command::Set { key: k1, value: v1, ex: e1, px: p1, exat: a1, pxat: q1, nx: n1, xx: x1, get: g1, keepttl: t1 }, Command::Set { key: k2, value: v2, ex: e2, px: p2, exat: a2, pxat: q2, nx: n2, xx: x2, get: g2, keepttl: t2 }) => k1 == k2 && c16::seq(v1, v2) && e1 == e2 && p1 == p2 && a1 == a2 && q1 == q2 && n1 == n2 && x1 == x2 && g1 == g2 && t1 == t2, _ => false }); // SET arm of both parsers (S7), 4 argument(s): keys/values 1 symbolic byte, first number negative ('-' + 1 symbolic digit), keywords in any letter case
    c16_armv_set_nx, "C16", experimental, 12, ascii, 900 => c16::arm_spec(b"SET", &[A::S(1), A::S(1), A::K(b"NX")], c16arm!(SET), |a, b| match (a, b) { (Command::Set { key: k1, value: v1, ex: e1, px: p1, exat: a1, pxat: q1, nx: n1, xx: x1, get: g1, keepttl: t1 }, Command::Set { key: k2, value: v2, ex: e2, px: p2, exat: a2, pxat: q2, nx: n2, xx: x2, get: g2, keepttl: t2 }) => k1 == k2 && c16::seq(v1, v2) && e1 == e2 && p1 == p2 && a1 == a2 && q1 == q2 && n1 == n2 && x1 == x2 && g1 == g2 && t1 == t2, _ => false }); // SET arm of both parsers (S7), 3 argument(s): keys/values 1 symbolic byte, numbers 1 symbolic digit, keywords in any letter case
    c16_armv_set_xx_get, "C16", experimental, 12, ascii, 900 => c16::arm_spec(b"SET", &[A::S(1), A::S(1), A::K(b"XX"), A::K(b"GET")], c16arm!(SET), |a, b| match (a, b) { (Command::Set { key: k1, value: v1, ex: e1, px: p1, exat: a1, pxat: q1, nx: n1, xx: x1, get: g1, keepttl: t1 }, Command::Set { key: k2, value: v2, ex: e2, px: p2, exat: a2, pxat: q2, nx: n2, xx: x2, get: g2, keepttl: t2 }) => k1 == k2 && c16::seq(v1, v2) && e1 == e2 && p1 == p2 && a1 == a2 && q1 == q2 && n1 == n2 && x1 == x2 && g1 == g2 && t1 == t2, _ => false }); // SET arm of both parsers (S7), 4 argument(s): keys/values 1 symbolic byte, numbers 1 symbolic digit, keywords in any letter case
    c16_armv_setex, "C16", experimental, 12, ascii, 900 => c16::arm_spec(b"SETEX", &[A::S(1), A::D(1), A::S(1)], c16arm!(SETEX), |a, b| match (a, b) { (Command::Set { key: k1, value: v1, ex: e1, px: p1, exat: a1, pxat: q1, nx: n1, xx: x1, get: g1, keepttl: t1 }, Command::Set { key: k2, value: v2, ex: e2, px: p2, exat: a2, pxat: q2, nx: n2, xx: x2, get: g2, keepttl: t2 }) => k1 == k2 && c16::seq(v1, v2) && e1 == e2 && p1 == p2 && a1 == a2 && q1 == q2 && n1 == n2 && x1 == x2 && g1 == g2 && t1 == t2, _ => false }); // SETEX arm of both parsers (S7), 3 argument(s): keys/values 1 symbolic byte, numbers 1 symbolic digit, keywords in any letter case
    c16_armv_setex_neg, "C16", experimental, 12, ascii, 900 => c16::arm_spec(b"SETEX", &[A::S(1), A::N(1), A::S(1)], c16arm!(SETEX), |a, b| match (a, b) { (Command::Set { key: k1, value: v1, ex: e1, px: p1, exat: a1, pxat: q1, nx: n1, xx: x1, get: g1, keepttl: t1 }, Command::Set { key: k2, value: v2, ex: e2, px: p2, exat: a2, pxat: q2, nx: n2, xx: x2, get: g2, keepttl: t2 }) => k1 == k2 && c16::seq(v1, v2) && e1 == e2 && p1 == p2 && a1 == a2 && q1 == q2 && n1 == n2 && x1 == x2 && g1 == g2 && t1 == t2, _ => false }); // SETEX arm of both parsers (S7), 3 argument(s): keys/values 1 symbolic byte, first number negative ('-' + 1 symbolic digit), keywords in any letter case
    c16_armv_psetex, "C16", experimental, 12, ascii, 900 => c16::arm_spec(b"PSETEX", &[A::S(1), A::D(1), A::S(1)], c16arm!(PSETEX), |a, b| match (a, b) { (Command::Set { key: k1, value: v1, ex: e1, px: p1, exat: a1, pxat: q1, nx: n1, xx: x1, get: g1, keepttl: t1 }, Command::Set { key: k2, value: v2, ex: e2, px: p2, exat: a2, pxat: q2, nx: n2, xx: x2, get: g2, keepttl: t2 }) => k1 == k2 && c16::seq(v1, v2) && e1 == e2 && p1 == p2 && a1 == a2 && q1 == q2 && n1 == n2 && x1 == x2 && g1 == g2 && t1 == t2, _ => false }); // PSETEX arm of both parsers (S7), 3 argument(s): keys/values 1 symbolic byte, numbers 1 symbolic digit, keywords in any letter case
    c16_armv_psetex_neg, "C16", experimental, 12, ascii, 900 => c16::arm_spec(b"PSETEX", &[A::S(1), A::N(1), A::S(1)], c16arm!(PSETEX), |a, b| match (a, b) { (Command::Set { key: k1, value: v1, ex: e1, px: p1, exat: a1, pxat: q1, nx: n1, xx: x1, get: g1, keepttl: t1 }, Command::Set { key: k2, value: v2, ex: e2, px: p2, exat: a2, pxat: q2, nx: n2, xx: x2, get: g2, keepttl: t2 }) => k1 == k2 && c16::seq(v1, v2) && e1 == e2 && p1 == p2 && a1 == a2 && q1 == q2 && n1 == n2 && x1 == x2 && g1 == g2 && t1 == t2, _ => false }); // PSETEX arm of both parsers (S7), 3 argument(s): keys/values 1 symbolic byte, first number negative ('-' + 1 symbolic digit), keywords in any letter case
    c16_armv_setnx, "C16", experimental, 12, ascii, 900 => c16::arm_spec(b"SETNX", &[A::S(1), A::S(1)], c16arm!(SETNX), |a, b| match (a, b) { (Command::SetNx(k1, v1), Command::SetNx(k2, v2)) => k1 == k2 && c16::seq(v1, v2), _ => false }); // SETNX arm of both parsers (S7), 2 argument(s): keys/values 1 symbolic byte, numbers 1 symbolic digit, keywords in any letter case
    c16_armv_getset, "C16", experimental, 12, ascii, 900 => c16::arm_spec(b"GETSET", &[A::S(1), A::S(1)], c16arm!(GETSET), |a, b| match (a, b) { (Command::GetSet(k1, v1), Command::GetSet(k2, v2)) => k1 == k2 && c16::seq(v1, v2), _ => false }); // GETSET arm of both parsers (S7), 2 argument(s): keys/values 1 symbolic byte, numbers 1 symbolic digit, keywords in any letter case
    c16_armv_append, "C16", experimental, 12, ascii, 900 => c16::arm_spec(b"APPEND", &[A::S(1), A::S(1)], c16arm!(APPEND), |a, b| match (a, b) { (Command::Append(k1, v1), Command::Append(k2, v2)) => k1 == k2 && c16::seq(v1, v2), _ => false }); // APPEND arm of both parsers (S7), 2 argument(s): keys/values 1 symbolic byte, numbers 1 symbolic digit, keywords in any letter case
    c16_armv_strlen, "C16", experimental, 12, ascii, 900 => c16::arm_spec(b"STRLEN", &[A::S(1)], c16arm!(STRLEN), |a, b| match (a, b) { (Command::StrLen(x), Command::StrLen(y)) => x == y, _ => false }); // STRLEN arm of both parsers (S7), 1 argument(s): keys/values 1 symbolic byte, numbers 1 symbolic digit, keywords in any letter case
    c16_armv_incr, "C16", experimental, 12, ascii, 900 => c16::arm_spec(b"INCR", &[A::S(1)], c16arm!(INCR), |a, b| match (a, b) { (Command::Incr(x), Command::Incr(y)) => x == y, _ => false }); // INCR arm of both parsers (S7), 1 argument(s): keys/values 1 symbolic byte, numbers 1 symbolic digit, keywords in any letter case
    c16_armv_decr, "C16", experimental, 12, ascii, 900 => c16::arm_spec(b"DECR", &[A::S(1)], c16arm!(DECR), |a, b| match (a, b) { (Command::Decr(x), Command::Decr(y)) => x == y, _ => false }); // DECR arm of both parsers (S7), 1 argument(s): keys/values 1 symbolic byte, numbers 1 symbolic digit, keywords in any letter case
    c16_armv_incrby, "C16", experimental, 12, ascii, 900 => c16::arm_spec(b"INCRBY", &[A::S(1), A::D(1)], c16arm!(INCRBY), |a, b| match (a, b) { (Command::IncrBy(k1, n1), Command::IncrBy(k2, n2)) => k1 == k2 && n1 == n2, _ => false }); // INCRBY arm of both parsers (S7), 2 argument(s): keys/values 1 symbolic byte, numbers 1 symbolic digit, keywords in any letter case
    c16_armv_incrby_neg, "C16", experimental, 12, ascii, 900 => c16::arm_spec(b"INCRBY", &[A::S(1), A::N(1)], c16arm!(INCRBY), |a, b| match (a, b) { (Command::IncrBy(k1, n1), Command::IncrBy(k2, n2)) => k1 == k2 && n1 == n2, _ => false }); // INCRBY arm of both parsers (S7), 2 argument(s): keys/values 1 symbolic byte, first number negative ('-' + 1 symbolic digit), keywords in any letter case
    c16_armv_decrby, "C16", experimental, 12, ascii, 900 => c16::arm_spec(b"DECRBY", &[A::S(1), A::D(1)], c16arm!(DECRBY), |a, b| match (a, b) { (Command::DecrBy(k1, n1), Command::DecrBy(k2, n2)) => k1 == k2 && n1 == n2, _ => false }); // DECRBY arm of both parsers (S7), 2 argument(s): keys/values 1 symbolic byte, numbers 1 symbolic digit, keywords in any letter case
    c16_armv_decrby_neg, "C16", experimental, 12, ascii, 900 => c16::arm_spec(b"DECRBY", &[A::S(1), A::N(1)], c16arm!(DECRBY), |a, b| match (a, b) { (Command::DecrBy(k1, n1), Command::DecrBy(k2, n2)) => k1 == k2 && n1 == n2, _ => false }); // DECRBY arm of both parsers (S7), 2 argument(s): keys/values 1 symbolic byte, first number negative ('-' + 1 symbolic digit), keywords in any letter case
    c16_armv_del, "C16", experimental, 12, ascii, 900 => c16::arm_spec(b"DEL", &[A::S(1), A::S(1)], c16arm!(DEL), |a, b| match (a, b) { (Command::Del(x), Command::Del(y)) => c16::vs1(x, y), _ => false }); // DEL arm of both parsers (S7), 2 argument(s): keys/values 1 symbolic byte, numbers 1 symbolic digit, keywords in any letter case
    c16_armv_exists, "C16", experimental, 12, ascii, 900 => c16::arm_spec(b"EXISTS", &[A::S(1)], c16arm!(EXISTS), |a, b| match (a, b) { (Command::Exists(x), Command::Exists(y)) => c16::vs1(x, y), _ => false }); // EXISTS arm of both parsers (S7), 1 argument(s): keys/values 1 symbolic byte, numbers 1 symbolic digit, keywords in any letter case
    c16_armv_type, "C16", experimental, 12, ascii, 900 => c16::arm_spec(b"TYPE", &[A::S(1)], c16arm!(TYPE), |a, b| match (a, b) { (Command::TypeOf(x), Command::TypeOf(y)) => x == y, _ => false }); // TYPE arm of both parsers (S7), 1 argument(s): keys/values 1 symbolic byte, numbers 1 symbolic digit, keywords in any letter case
    c16_armv_expire, "C16", experimental, 12, ascii, 900 => c16::arm_spec(b"EXPIRE", &[A::S(1), A::D(1)], c16arm!(EXPIRE), |a, b| match (a, b) { (Command::Expire { key: k1, seconds: s1, nx: n1, xx: x1, gt: g1, lt: l1 }, Command::Expire { key: k2, seconds: s2, nx: n2, xx: x2, gt: g2, lt: l2 }) => k1 == k2 && s1 == s2 && n1 == n2 && x1 == x2 && g1 == g2 && l1 == l2, _ => false }); // EXPIRE arm of both parsers (S7), 2 argument(s): keys/values 1 symbolic byte, numbers 1 symbolic digit, keywords in any letter case
    c16_armv_expire_neg, "C16", experimental, 12, ascii, 900 => c16::arm_spec(b"EXPIRE", &[A::S(1), A::N(1)], c16arm!(EXPIRE), |a, b| match (a, b) { (Command::Expire { key: k1, seconds: s1, nx: n1, xx: x1, gt: g1, lt: l1 }, Command::Expire { key: k2, seconds: s2, nx: n2, xx: x2, gt: g2, lt: l2 }) => k1 == k2 && s1 == s2 && n1 == n2 && x1 == x2 && g1 == g2 && l1 == l2, _ => false }); // EXPIRE arm of both parsers (S7), 2 argument(s): keys/values 1 symbolic byte, first number negative ('-' + 1 symbolic digit), keywords in any letter case
    c16_armv_expire_nx, "C16", experimental, 12, ascii, 900 => c16::arm_spec(b"EXPIRE", &[A::S(1), A::D(1), A::K(b"NX")], c16arm!(EXPIRE), |a, b| match (a, b) { (Command::Expire { key: k1, seconds: s1, nx: n1, xx: x1, gt: g1, lt: l1 }, Command::Expire { key: k2, seconds: s2, nx: n2, xx: x2, gt: g2, lt: l2 }) => k1 == k2 && s1 == s2 && n1 == n2 && x1 == x2 && g1 == g2 && l1 == l2, _ => false }); // EXPIRE arm of both parsers (S7), 3 argument(s): keys/values 1 symbolic byte, numbers 1 symbolic digit, keywords in any letter case
    c16_armv_expire_gt, "C16", experimental, 12, ascii, 900 => c16::arm_spec(b"EXPIRE", &[A::S(1), A::D(1), A::K(b"GT")], c16arm!(EXPIRE), |a, b| match (a, b) { (Command::Expire { key: k1, seconds: s1, nx: n1, xx: x1, gt: g1, lt: l1 }, Command::Expire { key: k2, seconds: s2, nx: n2, xx: x2, gt: g2, lt: l2 }) => k1 == k2 && s1 == s2 && n1 == n2 && x1 == x2 && g1 == g2 && l1 == l2, _ => false }); // EXPIRE arm of both parsers (S7), 3 argument(s): keys/values 1 symbolic byte, numbers 1 symbolic digit, keywords in any letter case
    c16_armv_pexpire, "C16", experimental, 12, ascii, 900 => c16::arm_spec(b"PEXPIRE", &[A::S(1), A::D(1)], c16arm!(PEXPIRE), |a, b| match (a, b) { (Command::PExpire { key: k1, milliseconds: s1, nx: n1, xx: x1, gt: g1, lt: l1 }, Command::PExpire { key: k2, milliseconds: s2, nx: n2, xx: x2, gt: g2, lt: l2 }) => k1 == k2 && s1 == s2 && n1 == n2 && x1 == x2 && g1 == g2 && l1 == l2, _ => false }); // PEXPIRE arm of both parsers (S7), 2 argument(s): keys/values 1 symbolic byte, numbers 1 symbolic digit, keywords in any letter case
    c16_armv_pexpire_neg, "C16", experimental, 12, ascii, 900 => c16::arm_spec(b"PEXPIRE", &[A::S(1), A::N(1)], c16arm!(PEXPIRE), |a, b| match (a, b) { (Command::PExpire { key: k1, milliseconds: s1, nx: n1, xx: x1, gt: g1, lt: l1 }, Command::PExpire { key: k2, milliseconds: s2, nx: n2, xx: x2, gt: g2, lt: l2 }) => k1 == k2 && s1 == s2 && n1 == n2 && x1 == x2 && g1 == g2 && l1 == l2, _ => false }); // PEXPIRE arm of both parsers (S7), 2 argument(s): keys/values 1 symbolic byte, first number negative ('-' + 1 symbolic digit), keywords in any letter case
    c16_armv_expireat, "C16", experimental, 12, ascii, 900 => c16::arm_spec(b"EXPIREAT", &[A::S(1), A::D(1)], c16arm!(EXPIREAT), |a, b| match (a, b) { (Command::ExpireAt(k1, n1), Command::ExpireAt(k2, n2)) => k1 == k2 && n1 == n2, _ => false }); // EXPIREAT arm of both parsers (S7), 2 argument(s): keys/values 1 symbolic byte, numbers 1 symbolic digit, keywords in any letter case
    c16_armv_ttl, "C16", experimental, 12, ascii, 900 => c16::arm_spec(b"TTL", &[A::S(1)], c16arm!(TTL), |a, b| match (a, b) { (Command::Ttl(x), Command::Ttl(y)) => x == y, _ => false }); // TTL arm of both parsers (S7), 1 argument(s): keys/values 1 symbolic byte, numbers 1 symbolic digit, keywords in any letter case
    c16_armv_pttl, "C16", experimental, 12, ascii, 900 => c16::arm_spec(b"PTTL", &[A::S(1)], c16arm!(PTTL), |a, b| match (a, b) { (Command::Pttl(x), Command::Pttl(y)) => x == y, _ => false }); // PTTL arm of both parsers (S7), 1 argument(s): keys/values 1 symbolic byte, numbers 1 symbolic digit, keywords in any letter case
    c16_armv_persist, "C16", experimental, 12, ascii, 900 => c16::arm_spec(b"PERSIST", &[A::S(1)], c16arm!(PERSIST), |a, b| match (a, b) { (Command::Persist(x), Command::Persist(y)) => x == y, _ => false }); // PERSIST arm of both parsers (S7), 1 argument(s): keys/values 1 symbolic byte, numbers 1 symbolic digit, keywords in any letter case
    c16_armv_lpush, "C16", experimental, 12, ascii, 900 => c16::arm_spec(b"LPUSH", &[A::S(1), A::S(1)], c16arm!(LPUSH), |a, b| match (a, b) { (Command::LPush(k1, v1), Command::LPush(k2, v2)) => k1 == k2 && c16::vsds(v1, v2), _ => false }); // LPUSH arm of both parsers (S7), 2 argument(s): keys/values 1 symbolic byte, numbers 1 symbolic digit, keywords in any letter case
    c16_armv_rpush, "C16", experimental, 12, ascii, 900 => c16::arm_spec(b"RPUSH", &[A::S(1), A::S(1), A::S(1)], c16arm!(RPUSH), |a, b| match (a, b) { (Command::RPush(k1, v1), Command::RPush(k2, v2)) => k1 == k2 && c16::vsds(v1, v2), _ => false }); // RPUSH arm of both parsers (S7), 3 argument(s): keys/values 1 symbolic byte, numbers 1 symbolic digit, keywords in any letter case
    c16_armv_lpop, "C16", experimental, 12, ascii, 900 => c16::arm_spec(b"LPOP", &[A::S(1)], c16arm!(LPOP), |a, b| match (a, b) { (Command::LPop(x), Command::LPop(y)) => x == y, _ => false }); // LPOP arm of both parsers (S7), 1 argument(s): keys/values 1 symbolic byte, numbers 1 symbolic digit, keywords in any letter case
    c16_armv_rpop, "C16", experimental, 12, ascii, 900 => c16::arm_spec(b"RPOP", &[A::S(1)], c16arm!(RPOP), |a, b| match (a, b) { (Command::RPop(x), Command::RPop(y)) => x == y, _ => false }); // RPOP arm of both parsers (S7), 1 argument(s): keys/values 1 symbolic byte, numbers 1 symbolic digit, keywords in any letter case
    c16_armv_llen, "C16", experimental, 12, ascii, 900 => c16::arm_spec(b"LLEN", &[A::S(1)], c16arm!(LLEN), |a, b| match (a, b) { (Command::LLen(x), Command::LLen(y)) => x == y, _ => false }); // LLEN arm of both parsers (S7), 1 argument(s): keys/values 1 symbolic byte, numbers 1 symbolic digit, keywords in any letter case
    c16_armv_lrange, "C16", experimental, 12, ascii, 900 => c16::arm_spec(b"LRANGE", &[A::S(1), A::D(1), A::D(1)], c16arm!(LRANGE), |a, b| match (a, b) { (Command::LRange(k1, a1, b1), Command::LRange(k2, a2, b2)) => k1 == k2 && a1 == a2 && b1 == b2, _ => false }); // LRANGE arm of both parsers (S7), 3 argument(s): keys/values 1 symbolic byte, numbers 1 symbolic digit, keywords in any letter case
    c16_armv_lrange_neg, "C16", experimental, 12, ascii, 900 => c16::arm_spec(b"LRANGE", &[A::S(1), A::N(1), A::D(1)], c16arm!(LRANGE), |a, b| match (a, b) { (Command::LRange(k1, a1, b1), Command::LRange(k2, a2, b2)) => k1 == k2 && a1 == a2 && b1 == b2, _ => false }); // LRANGE arm of both parsers (S7), 3 argument(s): keys/values 1 symbolic byte, first number negative ('-' + 1 symbolic digit), keywords in any letter case
    c16_armv_lindex, "C16", experimental, 12, ascii, 900 => c16::arm_spec(b"LINDEX", &[A::S(1), A::D(1)], c16arm!(LINDEX), |a, b| match (a, b) { (Command::LIndex(k1, n1), Command::LIndex(k2, n2)) => k1 == k2 && n1 == n2, _ => false }); // LINDEX arm of both parsers (S7), 2 argument(s): keys/values 1 symbolic byte, numbers 1 symbolic digit, keywords in any letter case
    c16_armv_lindex_neg, "C16", experimental, 12, ascii, 900 => c16::arm_spec(b"LINDEX", &[A::S(1), A::N(1)], c16arm!(LINDEX), |a, b| match (a, b) { (Command::LIndex(k1, n1), Command::LIndex(k2, n2)) => k1 == k2 && n1 == n2, _ => false }); // LINDEX arm of both parsers (S7), 2 argument(s): keys/values 1 symbolic byte, first number negative ('-' + 1 symbolic digit), keywords in any letter case
    c16_armv_lset, "C16", experimental, 12, ascii, 900 => c16::arm_spec(b"LSET", &[A::S(1), A::D(1), A::S(1)], c16arm!(LSET), |a, b| match (a, b) { (Command::LSet(k1, i1, v1), Command::LSet(k2, i2, v2)) => k1 == k2 && i1 == i2 && c16::seq(v1, v2), _ => false }); // LSET arm of both parsers (S7), 3 argument(s): keys/values 1 symbolic byte, numbers 1 symbolic digit, keywords in any letter case
    c16_armv_ltrim, "C16", experimental, 12, ascii, 900 => c16::arm_spec(b"LTRIM", &[A::S(1), A::D(1), A::D(1)], c16arm!(LTRIM), |a, b| match (a, b) { (Command::LTrim(k1, a1, b1), Command::LTrim(k2, a2, b2)) => k1 == k2 && a1 == a2 && b1 == b2, _ => false }); // LTRIM arm of both parsers (S7), 3 argument(s): keys/values 1 symbolic byte, numbers 1 symbolic digit, keywords in any letter case
    c16_armv_rpoplpush, "C16", experimental, 12, ascii, 900 => c16::arm_spec(b"RPOPLPUSH", &[A::S(1), A::S(1)], c16arm!(RPOPLPUSH), |a, b| match (a, b) { (Command::RPopLPush(a1, b1), Command::RPopLPush(a2, b2)) => a1 == a2 && b1 == b2, _ => false }); // RPOPLPUSH arm of both parsers (S7), 2 argument(s): keys/values 1 symbolic byte, numbers 1 symbolic digit, keywords in any letter case
    c16_armv_lmove, "C16", experimental, 12, ascii, 900 => c16::arm_spec(b"LMOVE", &[A::S(1), A::S(1), A::K(b"LEFT"), A::K(b"RIGHT")], c16arm!(LMOVE), |a, b| match (a, b) { (Command::LMove { source: a1, dest: b1, wherefrom: c1, whereto: d1 }, Command::LMove { source: a2, dest: b2, wherefrom: c2, whereto: d2 }) => a1 == a2 && b1 == b2 && c1 == c2 && d1 == d2, _ => false }); // LMOVE arm of both parsers (S7), 4 argument(s): keys/values 1 symbolic byte, numbers 1 symbolic digit, keywords in any letter case
    c16_armv_lmove_rl, "C16", experimental, 12, ascii, 900 => c16::arm_spec(b"LMOVE", &[A::S(1), A::S(1), A::K(b"RIGHT"), A::K(b"LEFT")], c16arm!(LMOVE), |a, b| match (a, b) { (Command::LMove { source: a1, dest: b1, wherefrom: c1, whereto: d1 }, Command::LMove { source: a2, dest: b2, wherefrom: c2, whereto: d2 }) => a1 == a2 && b1 == b2 && c1 == c2 && d1 == d2, _ => false }); // LMOVE arm of both parsers (S7), 4 argument(s): keys/values 1 symbolic byte, numbers 1 symbolic digit, keywords in any letter case
    c16_armv_sadd, "C16", experimental, 12, ascii, 900 => c16::arm_spec(b"SADD", &[A::S(1), A::S(1)], c16arm!(SADD), |a, b| match (a, b) { (Command::SAdd(k1, v1), Command::SAdd(k2, v2)) => k1 == k2 && c16::vsds(v1, v2), _ => false }); // SADD arm of both parsers (S7), 2 argument(s): keys/values 1 symbolic byte, numbers 1 symbolic digit, keywords in any letter case
    c16_armv_srem, "C16", experimental, 12, ascii, 900 => c16::arm_spec(b"SREM", &[A::S(1), A::S(1)], c16arm!(SREM), |a, b| match (a, b) { (Command::SRem(k1, v1), Command::SRem(k2, v2)) => k1 == k2 && c16::vsds(v1, v2), _ => false }); // SREM arm of both parsers (S7), 2 argument(s): keys/values 1 symbolic byte, numbers 1 symbolic digit, keywords in any letter case
    c16_armv_sismember, "C16", experimental, 12, ascii, 900 => c16::arm_spec(b"SISMEMBER", &[A::S(1), A::S(1)], c16arm!(SISMEMBER), |a, b| match (a, b) { (Command::SIsMember(k1, v1), Command::SIsMember(k2, v2)) => k1 == k2 && c16::seq(v1, v2), _ => false }); // SISMEMBER arm of both parsers (S7), 2 argument(s): keys/values 1 symbolic byte, numbers 1 symbolic digit, keywords in any letter case
    c16_armv_smembers, "C16", experimental, 12, ascii, 900 => c16::arm_spec(b"SMEMBERS", &[A::S(1)], c16arm!(SMEMBERS), |a, b| match (a, b) { (Command::SMembers(x), Command::SMembers(y)) => x == y, _ => false }); // SMEMBERS arm of both parsers (S7), 1 argument(s): keys/values 1 symbolic byte, numbers 1 symbolic digit, keywords in any letter case
    c16_armv_scard, "C16", experimental, 12, ascii, 900 => c16::arm_spec(b"SCARD", &[A::S(1)], c16arm!(SCARD), |a, b| match (a, b) { (Command::SCard(x), Command::SCard(y)) => x == y, _ => false }); // SCARD arm of both parsers (S7), 1 argument(s): keys/values 1 symbolic byte, numbers 1 symbolic digit, keywords in any letter case
    c16_armv_spop, "C16", experimental, 12, ascii, 900 => c16::arm_spec(b"SPOP", &[A::S(1), A::G(1)], c16arm!(SPOP), |a, b| match (a, b) { (Command::SPop(k1, n1), Command::SPop(k2, n2)) => k1 == k2 && n1 == n2, _ => false }); // SPOP arm of both parsers (S7), 2 argument(s): keys/values 1 symbolic byte, numbers 1 symbolic digit, keywords in any letter case
    c16_armv_hset, "C16", experimental, 12, ascii, 900 => c16::arm_spec(b"HSET", &[A::S(1), A::S(1), A::S(1)], c16arm!(HSET), |a, b| match (a, b) { (Command::HSet(k1, p1), Command::HSet(k2, p2)) => k1 == k2 && p1.len() == p2.len() && p1.len() == 1 && c16::seq(&p1[0].0, &p2[0].0) && c16::seq(&p1[0].1, &p2[0].1), _ => false }); // HSET arm of both parsers (S7), 3 argument(s): keys/values 1 symbolic byte, numbers 1 symbolic digit, keywords in any letter case
    c16_armv_hget, "C16", experimental, 12, ascii, 900 => c16::arm_spec(b"HGET", &[A::S(1), A::S(1)], c16arm!(HGET), |a, b| match (a, b) { (Command::HGet(k1, v1), Command::HGet(k2, v2)) => k1 == k2 && c16::seq(v1, v2), _ => false }); // HGET arm of both parsers (S7), 2 argument(s): keys/values 1 symbolic byte, numbers 1 symbolic digit, keywords in any letter case
    c16_armv_hdel, "C16", experimental, 12, ascii, 900 => c16::arm_spec(b"HDEL", &[A::S(1), A::S(1)], c16arm!(HDEL), |a, b| match (a, b) { (Command::HDel(k1, v1), Command::HDel(k2, v2)) => k1 == k2 && c16::vsds(v1, v2), _ => false }); // HDEL arm of both parsers (S7), 2 argument(s): keys/values 1 symbolic byte, numbers 1 symbolic digit, keywords in any letter case
    c16_armv_hgetall, "C16", experimental, 12, ascii, 900 => c16::arm_spec(b"HGETALL", &[A::S(1)], c16arm!(HGETALL), |a, b| match (a, b) { (Command::HGetAll(x), Command::HGetAll(y)) => x == y, _ => false }); // HGETALL arm of both parsers (S7), 1 argument(s): keys/values 1 symbolic byte, numbers 1 symbolic digit, keywords in any letter case
    c16_armv_hlen, "C16", experimental, 12, ascii, 900 => c16::arm_spec(b"HLEN", &[A::S(1)], c16arm!(HLEN), |a, b| match (a, b) { (Command::HLen(x), Command::HLen(y)) => x == y, _ => false }); // HLEN arm of both parsers (S7), 1 argument(s): keys/values 1 symbolic byte, numbers 1 symbolic digit, keywords in any letter case
    c16_armv_hexists, "C16", experimental, 12, ascii, 900 => c16::arm_spec(b"HEXISTS", &[A::S(1), A::S(1)], c16arm!(HEXISTS), |a, b| match (a, b) { (Command::HExists(k1, v1), Command::HExists(k2, v2)) => k1 == k2 && c16::seq(v1, v2), _ => false }); // HEXISTS arm of both parsers (S7), 2 argument(s): keys/values 1 symbolic byte, numbers 1 symbolic digit, keywords in any letter case
    c16_armv_hincrby, "C16", experimental, 12, ascii, 900 => c16::arm_spec(b"HINCRBY", &[A::S(1), A::S(1), A::D(1)], c16arm!(HINCRBY), |a, b| match (a, b) { (Command::HIncrBy(k1, f1, n1), Command::HIncrBy(k2, f2, n2)) => k1 == k2 && c16::seq(f1, f2) && n1 == n2, _ => false }); // HINCRBY arm of both parsers (S7), 3 argument(s): keys/values 1 symbolic byte, numbers 1 symbolic digit, keywords in any letter case
    c16_armv_hincrby_neg, "C16", experimental, 12, ascii, 900 => c16::arm_spec(b"HINCRBY", &[A::S(1), A::S(1), A::N(1)], c16arm!(HINCRBY), |a, b| match (a, b) { (Command::HIncrBy(k1, f1, n1), Command::HIncrBy(k2, f2, n2)) => k1 == k2 && c16::seq(f1, f2) && n1 == n2, _ => false }); // HINCRBY arm of both parsers (S7), 3 argument(s): keys/values 1 symbolic byte, first number negative ('-' + 1 symbolic digit), keywords in any letter case
    c16_armv_zscore, "C16", experimental, 12, ascii, 900 => c16::arm_spec(b"ZSCORE", &[A::S(1), A::S(1)], c16arm!(ZSCORE), |a, b| match (a, b) { (Command::ZScore(k1, v1), Command::ZScore(k2, v2)) => k1 == k2 && c16::seq(v1, v2), _ => false }); // ZSCORE arm of both parsers (S7), 2 argument(s): keys/values 1 symbolic byte, numbers 1 symbolic digit, keywords in any letter case
    c16_armv_zrank, "C16", experimental, 12, ascii, 900 => c16::arm_spec(b"ZRANK", &[A::S(1), A::S(1)], c16arm!(ZRANK), |a, b| match (a, b) { (Command::ZRank(k1, v1), Command::ZRank(k2, v2)) => k1 == k2 && c16::seq(v1, v2), _ => false }); // ZRANK arm of both parsers (S7), 2 argument(s): keys/values 1 symbolic byte, numbers 1 symbolic digit, keywords in any letter case
    c16_armv_zrem, "C16", experimental, 12, ascii, 900 => c16::arm_spec(b"ZREM", &[A::S(1), A::S(1)], c16arm!(ZREM), |a, b| match (a, b) { (Command::ZRem(k1, v1), Command::ZRem(k2, v2)) => k1 == k2 && c16::vsds(v1, v2), _ => false }); // ZREM arm of both parsers (S7), 2 argument(s): keys/values 1 symbolic byte, numbers 1 symbolic digit, keywords in any letter case
    c16_armv_zcard, "C16", experimental, 12, ascii, 900 => c16::arm_spec(b"ZCARD", &[A::S(1)], c16arm!(ZCARD), |a, b| match (a, b) { (Command::ZCard(x), Command::ZCard(y)) => x == y, _ => false }); // ZCARD arm of both parsers (S7), 1 argument(s): keys/values 1 symbolic byte, numbers 1 symbolic digit, keywords in any letter case
    c16_armv_zrange, "C16", experimental, 12, ascii, 900 => c16::arm_spec(b"ZRANGE", &[A::S(1), A::D(1), A::D(1)], c16arm!(ZRANGE), |a, b| match (a, b) { (Command::ZRange(k1, a1, b1, w1), Command::ZRange(k2, a2, b2, w2)) => k1 == k2 && a1 == a2 && b1 == b2 && w1 == w2, _ => false }); // ZRANGE arm of both parsers (S7), 3 argument(s): keys/values 1 symbolic byte, numbers 1 symbolic digit, keywords in any letter case
    c16_armv_zrange_ws, "C16", experimental, 12, ascii, 900 => c16::arm_spec(b"ZRANGE", &[A::S(1), A::D(1), A::D(1), A::K(b"WITHSCORES")], c16arm!(ZRANGE), |a, b| match (a, b) { (Command::ZRange(k1, a1, b1, w1), Command::ZRange(k2, a2, b2, w2)) => k1 == k2 && a1 == a2 && b1 == b2 && w1 == w2, _ => false }); // ZRANGE arm of both parsers (S7), 4 argument(s): keys/values 1 symbolic byte, numbers 1 symbolic digit, keywords in any letter case
    c16_armv_mget, "C16", experimental, 12, ascii, 900 => c16::arm_spec(b"MGET", &[A::S(1), A::S(1)], c16arm!(MGET), |a, b| match (a, b) { (Command::MGet(x), Command::MGet(y)) => c16::vs1(x, y), _ => false }); // MGET arm of both parsers (S7), 2 argument(s): keys/values 1 symbolic byte, numbers 1 symbolic digit, keywords in any letter case
    c16_armv_getrange, "C16", experimental, 12, ascii, 900 => c16::arm_spec(b"GETRANGE", &[A::S(1), A::D(1), A::D(1)], c16arm!(GETRANGE), |a, b| match (a, b) { (Command::GetRange(k1, a1, b1), Command::GetRange(k2, a2, b2)) => k1 == k2 && a1 == a2 && b1 == b2, _ => false }); // GETRANGE arm of both parsers (S7), 3 argument(s): keys/values 1 symbolic byte, numbers 1 symbolic digit, keywords in any letter case
    c16_armv_setrange, "C16", experimental, 12, ascii, 900 => c16::arm_spec(b"SETRANGE", &[A::S(1), A::G(1), A::S(1)], c16arm!(SETRANGE), |a, b| match (a, b) { (Command::SetRange(k1, i1, v1), Command::SetRange(k2, i2, v2)) => k1 == k2 && i1 == i2 && c16::seq(v1, v2), _ => false }); // SETRANGE arm of both parsers (S7), 3 argument(s): keys/values 1 symbolic byte, numbers 1 symbolic digit, keywords in any letter case
    c16_armv_keys, "C16", experimental, 12, ascii, 900 => c16::arm_spec(b"KEYS", &[A::S(1)], c16arm!(KEYS), |a, b| match (a, b) { (Command::Keys(x), Command::Keys(y)) => x == y, _ => false }); // KEYS arm of both parsers (S7), 1 argument(s): keys/values 1 symbolic byte, numbers 1 symbolic digit, keywords in any letter case
    c16_armv_echo, "C16", experimental, 12, ascii, 900 => c16::arm_spec(b"ECHO", &[A::S(1)], c16arm!(ECHO), |a, b| match (a, b) { (Command::Echo(x), Command::Echo(y)) => c16::seq(x, y), _ => false }); // ECHO arm of both parsers (S7), 1 argument(s): keys/values 1 symbolic byte, numbers 1 symbolic digit, keywords in any letter case
    c16_armv_select, "C16", experimental, 12, ascii, 900 => c16::arm_spec(b"SELECT", &[A::G(1)], c16arm!(SELECT), |a, b| match (a, b) { (Command::Select(x), Command::Select(y)) => x == y, _ => false }); // SELECT arm of both parsers (S7), 1 argument(s): keys/values 1 symbolic byte, numbers 1 symbolic digit, keywords in any letter case
    c16_armv_ping, "C16", experimental, 12, ascii, 900 => c16::arm_spec(b"PING", &[], c16arm!(PING), |a, b| match (a, b) { (Command::Ping(x), Command::Ping(y)) => match (x, y) { (Some(p), Some(q)) => c16::seq(p, q), (None, None) => true, _ => false }, _ => false }); // PING arm of both parsers (S7), 0 argument(s): keys/values 1 symbolic byte, numbers 1 symbolic digit, keywords in any letter case
    c16_armv_ping_msg, "C16", experimental, 12, ascii, 900 => c16::arm_spec(b"PING", &[A::S(1)], c16arm!(PING), |a, b| match (a, b) { (Command::Ping(x), Command::Ping(y)) => match (x, y) { (Some(p), Some(q)) => c16::seq(p, q), (None, None) => true, _ => false }, _ => false }); // PING arm of both parsers (S7), 1 argument(s): keys/values 1 symbolic byte, numbers 1 symbolic digit, keywords in any letter case
    c16_armv_watch, "C16", experimental, 12, ascii, 900 => c16::arm_spec(b"WATCH", &[A::S(1)], c16arm!(WATCH), |a, b| match (a, b) { (Command::Watch(x), Command::Watch(y)) => c16::vs1(x, y), _ => false }); // WATCH arm of both parsers (S7), 1 argument(s): keys/values 1 symbolic byte, numbers 1 symbolic digit, keywords in any letter case
    c16_armv_multi, "C16", experimental, 12, ascii, 900 => c16::arm_spec(b"MULTI", &[], c16arm!(MULTI), |a, b| matches!((a, b), (Command::Multi, Command::Multi))); // MULTI arm of both parsers (S7), 0 argument(s): keys/values 1 symbolic byte, numbers 1 symbolic digit, keywords in any letter case
    c16_armv_exec, "C16", experimental, 12, ascii, 900 => c16::arm_spec(b"EXEC", &[], c16arm!(EXEC), |a, b| matches!((a, b), (Command::Exec, Command::Exec))); // EXEC arm of both parsers (S7), 0 argument(s): keys/values 1 symbolic byte, numbers 1 symbolic digit, keywords in any letter case
    c16_armv_discard, "C16", experimental, 12, ascii, 900 => c16::arm_spec(b"DISCARD", &[], c16arm!(DISCARD), |a, b| matches!((a, b), (Command::Discard, Command::Discard))); // DISCARD arm of both parsers (S7), 0 argument(s): keys/values 1 symbolic byte, numbers 1 symbolic digit, keywords in any letter case
    c16_armv_dbsize, "C16", experimental, 12, ascii, 900 => c16::arm_spec(b"DBSIZE", &[], c16arm!(DBSIZE), |a, b| matches!((a, b), (Command::DbSize, Command::DbSize))); // DBSIZE arm of both parsers (S7), 0 argument(s): keys/values 1 symbolic byte, numbers 1 symbolic digit, keywords in any letter case
    c16_armv_flushdb, "C16", experimental, 12, ascii, 900 => c16::arm_spec(b"FLUSHDB", &[], c16arm!(FLUSHDB), |a, b| matches!((a, b), (Command::FlushDb, Command::FlushDb))); // FLUSHDB arm of both parsers (S7), 0 argument(s): keys/values 1 symbolic byte, numbers 1 symbolic digit, keywords in any letter case
    c18_sync_offer_c2, "C18", quick, 12, hasher, 900 => c18::sync_offer(); // get_keys_in_buckets, limit 1, two keys in different buckets (depth 8), only the second bucket requested
    c18_sync_rounds_3_c2, "C18", experimental, 12, hasher, 900 => c18::sync_rounds(3); // 2 keys in one bucket, limit 1, 3 rounds of offer+apply: the peer must hold both
    c01_pexpire_opts_c2, "C01", experimental, 6, plain, 1500 => c01::expire_options(1); // PEXPIRE none|NX|XX|GT|LT, ms = any i64
    c01_empty_srem_c2, "C01", experimental, 6, plain, 1200 => c01::empty_collection_removed(3); // SREM of the last / not the last element
    c01_empty_hdel_c2, "C01", experimental, 6, plain, 1200 => c01::empty_collection_removed(4); // HDEL of the last / not the last element
    c01_empty_zrem_c2, "C01", experimental, 6, plain, 1200 => c01::empty_collection_removed(5); // ZREM of the last / not the last element
    c17_wrongtype_incrby_list_c2, "C17", experimental, 6, plain, 1500 => c17::wrong_type(0); // 4-key world of every type, symbolic arguments
    c17_wrongtype_append_hash_c2, "C17", experimental, 6, plain, 1500 => c17::wrong_type(1); // 4-key world of every type, symbolic arguments
    c17_wrongtype_getrange_list_c2, "C17", experimental, 6, plain, 1500 => c17::wrong_type(2); // 4-key world of every type, symbolic arguments
    c17_wrongtype_hset_list_c2, "C17", experimental, 6, plain, 1500 => c17::wrong_type(6); // 4-key world of every type, symbolic arguments
    c17_wrongtype_sadd_hash_c2, "C17", experimental, 6, plain, 1500 => c17::wrong_type(7); // 4-key world of every type, symbolic arguments
    c17_wrongtype_lpop_hash_c2, "C17", experimental, 6, plain, 1500 => c17::wrong_type(9); // 4-key world of every type, symbolic arguments
    c17_wrongtype_getset_list_c2, "C17", experimental, 6, plain, 1500 => c17::wrong_type(10); // 4-key world of every type, symbolic arguments
    c17_wrongtype_setget_list_c2, "C17", experimental, 6, plain, 1500 => c17::wrong_type(11); // 4-key world of every type, symbolic arguments
    c17_wrongtype_rpoplpush_to_string_c2, "C17", experimental, 6, plain, 1500 => c17::wrong_type(12); // 4-key world of every type, symbolic arguments
    c17_badargs_incr_overflow_c2, "C17", experimental, 24, plain, 1500 => c17::bad_args(0); // right-typed key, failing symbolic arguments
    c17_badargs_incr_nonnumber_c2, "C17", experimental, 24, plain, 1500 => c17::bad_args(1); // right-typed key, failing symbolic arguments
    c17_badargs_lset_range_c2, "C17", experimental, 24, plain, 1500 => c17::bad_args(2); // right-typed key, failing symbolic arguments
    c17_badargs_setrange_huge_c2, "C17", experimental, 24, plain, 1500 => c17::bad_args(3); // right-typed key, failing symbolic arguments
    c17_badargs_expire_range_c2, "C17", experimental, 24, plain, 1500 => c17::bad_args(5); // right-typed key, failing symbolic arguments
    c17_badargs_hincrby_nonnumber_c2, "C17", experimental, 24, plain, 1500 => c17::bad_args(6); // right-typed key, failing symbolic arguments
    c17_readonly_get_c2, "C17", experimental, 6, plain, 1500 => c17::read_only(0); // read-only op on a symbolic key of any type or a missing key
    c17_readonly_strlen_c2, "C17", experimental, 6, plain, 1500 => c17::read_only(1); // read-only op on a symbolic key of any type or a missing key
    c17_readonly_getrange_c2, "C17", experimental, 6, plain, 1500 => c17::read_only(2); // read-only op on a symbolic key of any type or a missing key
    c17_readonly_llen_c2, "C17", experimental, 6, plain, 1500 => c17::read_only(3); // read-only op on a symbolic key of any type or a missing key
    c17_readonly_lindex_c2, "C17", experimental, 6, plain, 1500 => c17::read_only(4); // read-only op on a symbolic key of any type or a missing key
    c17_readonly_lrange_c2, "C17", experimental, 6, plain, 1500 => c17::read_only(5); // read-only op on a symbolic key of any type or a missing key
    c17_readonly_hget_c2, "C17", experimental, 6, plain, 1500 => c17::read_only(6); // read-only op on a symbolic key of any type or a missing key
    c17_readonly_hlen_c2, "C17", experimental, 6, plain, 1500 => c17::read_only(7); // read-only op on a symbolic key of any type or a missing key
    c17_readonly_scard_c2, "C17", experimental, 6, plain, 1500 => c17::read_only(8); // read-only op on a symbolic key of any type or a missing key
    c17_readonly_type_c2, "C17", experimental, 6, plain, 1500 => c17::read_only(11); // read-only op on a symbolic key of any type or a missing key
    c01_dispatch_incrby_c2, "C01", experimental, 24, plain, 2400 => c01::dispatch_incrdecr(0); // through execute(): INCRBY k n on a stored one-digit integer, n = any i64
    c01_dispatch_decrby_c2, "C01", experimental, 24, plain, 2400 => c01::dispatch_incrdecr(1); // through execute(): DECRBY k n on a stored one-digit integer, n = any i64
    c17_badargs_set_ex_overflow_nokey_c2, "C17", experimental, 24, plain, 1500 => c17::bad_args(8); // same on a missing key
    c12_twin_c2, "C12", experimental, 40, persist, 900 => c12::twin();
    c12_persist_flush_1_c2, "C12", experimental, 40, persist, 1800 => c12::persistence_flush(1); // StreamingPersistence::flush, 1 buffered update, every store operation Ok / Err / torn
    c12_wbuf_flush_1_c2, "C12", experimental, 40, persist, 1800 => c12::write_buffer_flush(1); // WriteBuffer::flush, 1 buffered update, the put Ok / Err / torn
    c05_twin_c2, "C05", experimental, 8, small, 600 => c05::twin();
    c05_exec_int_incrby_get_c2, "C05", experimental, 8, small, 1500 => c05::exec_equals_sequential(1, 1, 4); // k = one digit; MULTI INCRBY k n; GET k; EXEC vs sequential, n = any i64
    c05_edges_c2, "C05", experimental, 8, small, 1500 => c05::edges(); // nested MULTI, EXEC/DISCARD without MULTI, WATCH inside MULTI, UNWATCH
    c11_plan_2_nock, "C11", quick, 8, plain, 600 => c11::segment_plan(2, -1); // recover()'s segment selection (S9): 2 listed segments (ids 1..2 in either list order), minimum stamps from {5,7} (equal minima included), no checkpoint
    c11_plan_2_ck0, "C11", experimental, 8, plain, 600 => c11::segment_plan(2, 0); // recover()'s segment selection (S9): 2 listed segments (ids 1..2 in either list order), minimum stamps from {5,7} (equal minima included), checkpoint covering segments up to id 0
    c11_plan_2_ck1, "C11", experimental, 8, plain, 600 => c11::segment_plan(2, 1); // recover()'s segment selection (S9): 2 listed segments (ids 1..2 in either list order), minimum stamps from {5,7} (equal minima included), checkpoint covering segments up to id 1
    c11_plan_3_nock, "C11", thorough, 8, plain, 600 => c11::segment_plan(3, -1); // recover()'s segment selection (S9): 3 listed segments (ids 1..3 in either list order), minimum stamps from {5,7} (equal minima included), no checkpoint
    c11_plan_3_ck0, "C11", experimental, 8, plain, 600 => c11::segment_plan(3, 0); // recover()'s segment selection (S9): 3 listed segments (ids 1..3 in either list order), minimum stamps from {5,7} (equal minima included), checkpoint covering segments up to id 0
    c11_plan_3_ck1, "C11", experimental, 8, plain, 600 => c11::segment_plan(3, 1); // recover()'s segment selection (S9): 3 listed segments (ids 1..3 in either list order), minimum stamps from {5,7} (equal minima included), checkpoint covering segments up to id 1
    c11_plan_3_ck2, "C11", experimental, 8, plain, 600 => c11::segment_plan(3, 2); // recover()'s segment selection (S9): 3 listed segments (ids 1..3 in either list order), minimum stamps from {5,7} (equal minima included), checkpoint covering segments up to id 2
    c13_fold_1_out_c2, "C13", experimental, 8, plain, 900 => c13::fold(1, 2); // 1 update in the compacted segment + 1 update of the key outside the compaction (older segment / checkpoint); cutoff = any u64
    c13_twin_c1, "C13", quick, 8, plain, 300 => c13::twin();
    c13_fold_2_c1, "C13", quick, 8, plain, 1200 => c13::fold(2, 0); // 2 LWW updates of one key in the compacted segments (1-slot container model): stamps, bytes, tombstones symbolic; cutoff = any u64
    c13_fold_3_c1, "C13", experimental, 8, plain, 1800 => c13::fold(3, 0); // 3 LWW updates
    c13_fold_1_out_c1, "C13", experimental, 8, plain, 900 => c13::fold(1, 2); // 1 update in the compacted segment + 1 update of the key outside the compaction
    c13_fold_2_out_c1, "C13", experimental, 8, plain, 1800 => c13::fold(2, 2); // 2 updates compacted + 1 outside
    c07_hashcrdt_comm_c1, "C07", experimental, 8, plain, 900 => c07::hash_crdt_law(0); // CrdtValue::try_merge on two hashes over field f (present or not, symbolic register): commutative in the field's register
    c07_hashcrdt_idem_c1, "C07", experimental, 8, plain, 900 => c07::hash_crdt_law(1); // idempotent
    c07_hashcrdt_assoc_c1, "C07", experimental, 8, plain, 1500 => c07::hash_crdt_law(2); // associative over three hashes (tombstones, missing fields, any stamp order)
    c10_truncation_two_entries, "C10", experimental, 24, plain, 900 => c11::truncation_two_entries(); // truncate_before(T): closed file with 2 header-only entries (symbolic non-monotone stamps) + a second file; T symbolic
}
