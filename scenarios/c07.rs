//! C07 — CRDT merge laws over the real `ReplicatedValue::merge` / `CrdtValue` / lattice types.
use super::util::*;
use crate::vs;
use redis_sim::redis::SDS;
use redis_sim::replication::lattice::{LamportClock, LwwRegister, ReplicaId};
use redis_sim::replication::state::{CrdtValue, ReplicatedValue};

/// LWW-kind replicated value reachable by local ops + merges: inner stamp <= outer stamp.
pub fn any_rv_lww() -> ReplicatedValue {
    let l = any_lww();
    let ts = any_clock();
    vs::assume(l.timestamp <= ts);
    ReplicatedValue {
        crdt: CrdtValue::Lww(l),
        vector_clock: None,
        expiry_ms: any_opt_u64(),
        timestamp: ts,
        replication_factor: any_opt_u8(),
    }
}
fn inner(v: &ReplicatedValue) -> &LwwRegister<SDS> {
    match &v.crdt { CrdtValue::Lww(l) => l, _ => unreachable!() }
}
/// distinct writes carry distinct stamps (C08): equal stamps => same register contents
fn assume_unique_stamps(a: &ReplicatedValue, b: &ReplicatedValue) {
    let (x, y) = (inner(a), inner(b));
    vs::assume(x.timestamp != y.timestamp || lww_same(x, y));
}

macro_rules! obs_checks {
    ($x:expr, $y:expr, $law:literal) => {{
        let (x, y) = ($x, $y);
        vcheck!(opt_sds_eq(x.get(), y.get()), concat!($law, ":value"));
        vcheck!(x.is_tombstone() == y.is_tombstone(), concat!($law, ":liveness"));
        vcheck!(x.expiry_ms == y.expiry_ms, concat!($law, ":expiry"));
        vcheck!(x.timestamp.time == y.timestamp.time, concat!($law, ":stamp.time"));
        vcheck!(x.timestamp.replica_id == y.timestamp.replica_id, concat!($law, ":stamp.replica"));
        vcheck!(x.replication_factor == y.replication_factor, concat!($law, ":rf"));
        vcheck!(inner(x).timestamp == inner(y).timestamp, concat!($law, ":inner_stamp"));
    }};
}

pub fn lww_commutative() {
    let a = any_rv_lww();
    let b = any_rv_lww();
    assume_unique_stamps(&a, &b);
    let ab = a.merge(&b);
    let ba = b.merge(&a);
    vcover!(a.timestamp.time == b.timestamp.time && a.timestamp.replica_id != b.timestamp.replica_id, "tie on time, different replica");
    obs_checks!(&ab, &ba, "comm");
    std::mem::forget((a, b, ab, ba));
}
pub fn lww_idempotent() {
    let a = any_rv_lww();
    let aa = a.merge(&a);
    obs_checks!(&aa, &a, "idem");
    std::mem::forget((a, aa));
}
pub fn lww_associative() {
    let a = any_rv_lww();
    let b = any_rv_lww();
    let c = any_rv_lww();
    assume_unique_stamps(&a, &b);
    assume_unique_stamps(&a, &c);
    assume_unique_stamps(&b, &c);
    let l = a.merge(&b).merge(&c);
    let r = a.merge(&b.merge(&c));
    obs_checks!(&l, &r, "assoc");
    std::mem::forget((a, b, c, l, r));
}
/// vacuity twin: must come back FAILED
pub fn twin() {
    let a = any_rv_lww();
    let b = any_rv_lww();
    assume_unique_stamps(&a, &b);
    let ab = a.merge(&b);
    vcheck!(false, "twin:reachable");
    std::mem::forget((a, b, ab));
}

// ---------------------------------------------------------------------------------------------
// other CRDT kinds: values are built through the public operations with symbolic parameters
// ---------------------------------------------------------------------------------------------
use redis_sim::replication::lattice::{GCounter, GSet, ORSet, PNCounter, VectorClock};

fn any_gcounter() -> GCounter {
    let mut g = GCounter::new();
    let (p0, p1) = (vs::bool(), vs::bool());
    let (a0, a1) = (vs::u32(), vs::u32());
    if p0 { g.increment_by(ReplicaId(0), a0 as u64); }
    if p1 { g.increment_by(ReplicaId(1), a1 as u64); }
    g
}
fn g_obs_eq(x: &GCounter, y: &GCounter) -> bool {
    x.value() == y.value() && x.get_replica_count(&ReplicaId(0)) == y.get_replica_count(&ReplicaId(0))
        && x.get_replica_count(&ReplicaId(1)) == y.get_replica_count(&ReplicaId(1)) && x.is_empty() == y.is_empty()
}
/// law: 0 commutative, 1 idempotent, 2 associative
pub fn gcounter_law(law: u8) {
    let (a, b) = (any_gcounter(), any_gcounter());
    match law {
        0 => { let (x, y) = (a.merge(&b), b.merge(&a)); vcheck!(g_obs_eq(&x, &y), "gcounter:comm"); vcheck!((x == y), "gcounter:comm (==)"); std::mem::forget((x, y)); }
        1 => { let x = a.merge(&a); vcheck!(g_obs_eq(&x, &a), "gcounter:idem"); std::mem::forget(x); }
        _ => { let c = any_gcounter(); let (x, y) = (a.merge(&b).merge(&c), a.merge(&b.merge(&c))); vcheck!(g_obs_eq(&x, &y), "gcounter:assoc"); std::mem::forget((x, y, c)); }
    }
    std::mem::forget((a, b));
}

fn any_pncounter() -> PNCounter {
    let mut p = PNCounter::new();
    let (p0, p1, n0) = (vs::bool(), vs::bool(), vs::bool());
    let (a0, a1, d0) = (vs::u32(), vs::u32(), vs::u32());
    if p0 { p.increment_by(ReplicaId(0), a0 as u64); }
    if p1 { p.increment_by(ReplicaId(1), a1 as u64); }
    if n0 { p.decrement_by(ReplicaId(0), d0 as u64); }
    p
}
pub fn pncounter_law(law: u8) {
    let (a, b) = (any_pncounter(), any_pncounter());
    match law {
        0 => { let (x, y) = (a.merge(&b), b.merge(&a)); vcheck!(x.value() == y.value() && x.is_empty() == y.is_empty(), "pncounter:comm"); vcheck!(x == y, "pncounter:comm (==)"); std::mem::forget((x, y)); }
        1 => { let x = a.merge(&a); vcheck!(x.value() == a.value() && x == a, "pncounter:idem"); std::mem::forget(x); }
        _ => { let c = any_pncounter(); let (x, y) = (a.merge(&b).merge(&c), a.merge(&b.merge(&c))); vcheck!(x.value() == y.value() && x == y, "pncounter:assoc"); std::mem::forget((x, y, c)); }
    }
    std::mem::forget((a, b));
}

fn any_gset() -> GSet<String> {
    let mut s = GSet::new();
    if vs::bool() { s.add("a".to_string()); }
    if vs::bool() { s.add("b".to_string()); }
    s
}
fn gs_obs_eq(x: &GSet<String>, y: &GSet<String>) -> bool {
    x.len() == y.len() && x.contains(&"a".to_string()) == y.contains(&"a".to_string()) && x.contains(&"b".to_string()) == y.contains(&"b".to_string())
}
pub fn gset_law(law: u8) {
    let (a, b) = (any_gset(), any_gset());
    match law {
        0 => { let (x, y) = (a.merge(&b), b.merge(&a)); vcheck!(gs_obs_eq(&x, &y), "gset:comm"); std::mem::forget((x, y)); }
        1 => { let x = a.merge(&a); vcheck!(gs_obs_eq(&x, &a), "gset:idem"); std::mem::forget(x); }
        _ => { let c = any_gset(); let (x, y) = (a.merge(&b).merge(&c), a.merge(&b.merge(&c))); vcheck!(gs_obs_eq(&x, &y), "gset:assoc"); std::mem::forget((x, y, c)); }
    }
    std::mem::forget((a, b));
}

/// OR-set built by one replica's operations on element "a": optional add, optional remove, optional re-add
fn any_orset(r: u64) -> ORSet<String> {
    let mut s = ORSet::new();
    if vs::bool() { s.add("a".to_string(), ReplicaId(r)); }
    if vs::bool() { let t = s.remove(&"a".to_string()); std::mem::forget(t); }
    if vs::bool() { s.add("a".to_string(), ReplicaId(r)); }
    s
}
fn or_obs_eq(x: &ORSet<String>, y: &ORSet<String>) -> bool {
    x.contains(&"a".to_string()) == y.contains(&"a".to_string()) && x.len() == y.len()
        && x.get_tags(&"a".to_string()).map(|t| t.len()) == y.get_tags(&"a".to_string()).map(|t| t.len())
}
pub fn orset_law(law: u8) {
    let (a, b) = (any_orset(0), any_orset(1));
    match law {
        0 => { let (x, y) = (a.merge(&b), b.merge(&a)); vcheck!(or_obs_eq(&x, &y), "orset:comm"); vcheck!(x == y, "orset:comm (==)"); std::mem::forget((x, y)); }
        1 => { let x = a.merge(&a); vcheck!(or_obs_eq(&x, &a), "orset:idem"); std::mem::forget(x); }
        _ => { let c = any_orset(2); let (x, y) = (a.merge(&b).merge(&c), a.merge(&b.merge(&c))); vcheck!(or_obs_eq(&x, &y), "orset:assoc"); std::mem::forget((x, y, c)); }
    }
    std::mem::forget((a, b));
}

fn any_vclock() -> VectorClock {
    let mut v = VectorClock::new();
    let (n0, n1) = (vs::u8(), vs::u8());
    vs::assume(n0 <= 2 && n1 <= 2);
    let mut i = 0; while i < n0 { v.increment(ReplicaId(0)); i += 1; }
    let mut j = 0; while j < n1 { v.increment(ReplicaId(1)); j += 1; }
    v
}
pub fn vclock_law(law: u8) {
    let (a, b) = (any_vclock(), any_vclock());
    let eqv = |x: &VectorClock, y: &VectorClock| x.get(&ReplicaId(0)) == y.get(&ReplicaId(0)) && x.get(&ReplicaId(1)) == y.get(&ReplicaId(1));
    match law {
        0 => { let (x, y) = (a.merge(&b), b.merge(&a)); vcheck!(eqv(&x, &y) && x == y, "vclock:comm"); std::mem::forget((x, y)); }
        1 => { let x = a.merge(&a); vcheck!(eqv(&x, &a), "vclock:idem"); std::mem::forget(x); }
        _ => { let c = any_vclock(); let (x, y) = (a.merge(&b).merge(&c), a.merge(&b.merge(&c))); vcheck!(eqv(&x, &y), "vclock:assoc"); std::mem::forget((x, y, c)); }
    }
    std::mem::forget((a, b));
}

/// hash-kind replicated value over fields ⊆ {f, g}; every field is a symbolic register (stamp <= outer stamp)
fn any_rv_hash(with_g: bool) -> ReplicatedValue {
    let ts = any_clock();
    let mut h = crate::coll::HashMap::new();
    if vs::bool() { let l = any_lww(); vs::assume(l.timestamp <= ts); h.insert("f".to_string(), l); }
    if with_g && vs::bool() { let l = any_lww(); vs::assume(l.timestamp <= ts); h.insert("g".to_string(), l); }
    ReplicatedValue { crdt: CrdtValue::Hash(h), vector_clock: None, expiry_ms: any_opt_u64(), timestamp: ts, replication_factor: None }
}
fn field<'a>(v: &'a ReplicatedValue, f: &str) -> Option<&'a LwwRegister<SDS>> { v.get_hash().and_then(|h| h.get(f)) }
fn fields_same(a: &ReplicatedValue, b: &ReplicatedValue, f: &str) -> bool {
    match (field(a, f), field(b, f)) { (Some(x), Some(y)) => lww_obs_eq(x, y), (None, None) => true, _ => false }
}
fn assume_unique_field_stamps(a: &ReplicatedValue, b: &ReplicatedValue, f: &str) {
    if let (Some(x), Some(y)) = (field(a, f), field(b, f)) { vs::assume(x.timestamp != y.timestamp || lww_same(x, y)); }
}
fn hash_obs_checks(x: &ReplicatedValue, y: &ReplicatedValue) -> (bool, bool, bool) {
    (x.is_hash() == y.is_hash() && fields_same(x, y, "f") && fields_same(x, y, "g"),
     x.expiry_ms == y.expiry_ms,
     x.timestamp == y.timestamp)
}
pub fn hash_law(law: u8, with_g: bool) {
    let (a, b) = (any_rv_hash(with_g), any_rv_hash(with_g));
    assume_unique_field_stamps(&a, &b, "f");
    assume_unique_field_stamps(&a, &b, "g");
    match law {
        0 => {
            let (x, y) = (a.merge(&b), b.merge(&a));
            let (f, e, t) = hash_obs_checks(&x, &y);
            vcheck!(f, "hash:comm:fields"); vcheck!(e, "hash:comm:expiry"); vcheck!(t, "hash:comm:stamp");
            std::mem::forget((x, y));
        }
        1 => {
            let x = a.merge(&a);
            let (f, e, t) = hash_obs_checks(&x, &a);
            vcheck!(f && e && t, "hash:idem");
            std::mem::forget(x);
        }
        _ => {
            let c = any_rv_hash(with_g);
            assume_unique_field_stamps(&a, &c, "f"); assume_unique_field_stamps(&b, &c, "f");
            assume_unique_field_stamps(&a, &c, "g"); assume_unique_field_stamps(&b, &c, "g");
            let (x, y) = (a.merge(&b).merge(&c), a.merge(&b.merge(&c)));
            let (f, e, t) = hash_obs_checks(&x, &y);
            vcheck!(f, "hash:assoc:fields"); vcheck!(e, "hash:assoc:expiry"); vcheck!(t, "hash:assoc:stamp");
            std::mem::forget((x, y, c));
        }
    }
    std::mem::forget((a, b));
}

/// type mismatch (one side LWW, the other a hash {f}): commutative / associative in kind and content
pub fn mixed_comm() {
    let a = any_rv_lww();
    let b = any_rv_hash(false);
    vs::assume(a.timestamp != b.timestamp);
    let (x, y) = (a.merge(&b), b.merge(&a));
    vcheck!(x.is_hash() == y.is_hash(), "mixed:comm:surviving type");
    vcheck!(opt_sds_eq(x.get(), y.get()) && x.is_tombstone() == y.is_tombstone() && fields_same(&x, &y, "f"), "mixed:comm:content");
    vcheck!(x.timestamp == y.timestamp && x.expiry_ms == y.expiry_ms, "mixed:comm:stamp/expiry");
    std::mem::forget((a, b, x, y));
}
/// (Hash, Lww, Hash) with concrete payloads, symbolic stamps: grouping must not matter
pub fn mixed_assoc_hlh() {
    let mk_h = |v: u8, ts: LamportClock| { let mut h = crate::coll::HashMap::new(); h.insert("f".to_string(), LwwRegister { value: Some(sds1(v)), timestamp: ts, tombstone: false }); ReplicatedValue { crdt: CrdtValue::Hash(h), vector_clock: None, expiry_ms: None, timestamp: ts, replication_factor: None } };
    let (ta, tb, tc) = (any_clock(), any_clock(), any_clock());
    vs::assume(ta != tb && tb != tc && ta != tc);
    let a = mk_h(1, ta);
    let b = ReplicatedValue { crdt: CrdtValue::Lww(LwwRegister { value: Some(sds1(2)), timestamp: tb, tombstone: false }), vector_clock: None, expiry_ms: None, timestamp: tb, replication_factor: None };
    let c = mk_h(3, tc);
    let (x, y) = (a.merge(&b).merge(&c), a.merge(&b.merge(&c)));
    vcheck!(x.is_hash() == y.is_hash(), "mixed:assoc:surviving type");
    vcheck!(opt_sds_eq(x.get(), y.get()) && fields_same(&x, &y, "f"), "mixed:assoc:content depends on grouping");
    vcheck!(x.timestamp == y.timestamp, "mixed:assoc:stamp");
    std::mem::forget((a, b, c, x, y));
}

// ---------------------------------------------------------------------------------------------------------------
// hash values at the CrdtValue level (the (Hash, Hash) arm of CrdtValue::try_merge, which ReplicatedValue::merge and
// ShardReplicaState::apply_remote_delta reach): field f only, three hashes each holding f or not, registers symbolic
// (value / tombstone / stamp). The ReplicatedValue wrapper (vector clock, expiry, rf) is left out: with it the same
// laws ran out their caps.
fn any_crdt_hash_f() -> CrdtValue {
    let mut h = crate::coll::HashMap::new();
    let has = vs::bool();
    let l = any_lww();
    if has { h.insert("f".to_string(), l); }
    CrdtValue::Hash(h)
}
fn crdt_field<'a>(v: &'a CrdtValue) -> Option<&'a LwwRegister<SDS>> { match v { CrdtValue::Hash(h) => h.get("f"), _ => None } }
fn crdt_field_same(a: &CrdtValue, b: &CrdtValue) -> bool {
    matches!(a, CrdtValue::Hash(_)) && matches!(b, CrdtValue::Hash(_))
        && match (crdt_field(a), crdt_field(b)) { (Some(x), Some(y)) => lww_obs_eq(x, y), (None, None) => true, _ => false }
}
fn assume_unique(a: &CrdtValue, b: &CrdtValue) {
    if let (Some(x), Some(y)) = (crdt_field(a), crdt_field(b)) { vs::assume(x.timestamp != y.timestamp || lww_same(x, y)); }
}
fn tm(a: &CrdtValue, b: &CrdtValue) -> CrdtValue {
    match a.try_merge(b) { Ok(v) => v, Err(e) => { std::mem::forget(e); CrdtValue::Hash(crate::coll::HashMap::new()) } }
}
/// law: 0 commutative, 1 idempotent, 2 associative - in the register of field f (value, tombstone, stamp)
pub fn hash_crdt_law(law: u8) {
    let (a, b) = (any_crdt_hash_f(), any_crdt_hash_f());
    assume_unique(&a, &b);
    match law {
        0 => { let (x, y) = (tm(&a, &b), tm(&b, &a)); vcheck!(crdt_field_same(&x, &y), "hashcrdt:comm:field register"); std::mem::forget((x, y)); }
        1 => { let x = tm(&a, &a); vcheck!(crdt_field_same(&x, &a), "hashcrdt:idem:field register"); std::mem::forget(x); }
        _ => {
            let c = any_crdt_hash_f();
            assume_unique(&a, &c); assume_unique(&b, &c);
            let ab = tm(&a, &b);
            let bc = tm(&b, &c);
            let (x, y) = (tm(&ab, &c), tm(&a, &bc));
            vcheck!(crdt_field_same(&x, &y), "hashcrdt:assoc:field register (a field deleted on one replica resurrects or vanishes depending on merge order)");
            std::mem::forget((x, y, ab, bc, c));
        }
    }
    std::mem::forget((a, b));
}
