//! C07 — CRDT merge laws over the real `ReplicatedValue::merge` / `CrdtValue` / lattice types.
use super::util::*;
use crate::vs;
use redis_sim::redis::SDS;
use redis_sim::replication::lattice::{LamportClock, LwwRegister, ReplicaId};
use redis_sim::replication::state::{CrdtValue, ReplicatedValue};

/// LWW-kind replicated value reachable by local ops + merges: inner stamp <= outer stamp.
pub fn any_rv_lww() -> ReplicatedValue {
    let l = any_lww();
    let ts = any_clock();
    vs::assume(l.timestamp <= ts);
    ReplicatedValue {
        crdt: CrdtValue::Lww(l),
        vector_clock: None,
        expiry_ms: any_opt_u64(),
        timestamp: ts,
        replication_factor: any_opt_u8(),
    }
}
fn inner(v: &ReplicatedValue) -> &LwwRegister<SDS> {
    match &v.crdt { CrdtValue::Lww(l) => l, _ => unreachable!() }
}
/// distinct writes carry distinct stamps (C08): equal stamps => same register contents
fn assume_unique_stamps(a: &ReplicatedValue, b: &ReplicatedValue) {
    let (x, y) = (inner(a), inner(b));
    vs::assume(x.timestamp != y.timestamp || lww_same(x, y));
}

macro_rules! obs_checks {
    ($x:expr, $y:expr, $law:literal) => {{
        let (x, y) = ($x, $y);
        vcheck!(opt_sds_eq(x.get(), y.get()), concat!($law, ":value"));
        vcheck!(x.is_tombstone() == y.is_tombstone(), concat!($law, ":liveness"));
        vcheck!(x.expiry_ms == y.expiry_ms, concat!($law, ":expiry"));
        vcheck!(x.timestamp.time == y.timestamp.time, concat!($law, ":stamp.time"));
        vcheck!(x.timestamp.replica_id == y.timestamp.replica_id, concat!($law, ":stamp.replica"));
        vcheck!(x.replication_factor == y.replication_factor, concat!($law, ":rf"));
        vcheck!(inner(x).timestamp == inner(y).timestamp, concat!($law, ":inner_stamp"));
    }};
}

pub fn lww_commutative() {
    let a = any_rv_lww();
    let b = any_rv_lww();
    assume_unique_stamps(&a, &b);
    let ab = a.merge(&b);
    let ba = b.merge(&a);
    vcover!(a.timestamp.time == b.timestamp.time && a.timestamp.replica_id != b.timestamp.replica_id, "tie on time, different replica");
    obs_checks!(&ab, &ba, "comm");
    std::mem::forget((a, b, ab, ba));
}
pub fn lww_idempotent() {
    let a = any_rv_lww();
    let aa = a.merge(&a);
    obs_checks!(&aa, &a, "idem");
    std::mem::forget((a, aa));
}
pub fn lww_associative() {
    let a = any_rv_lww();
    let b = any_rv_lww();
    let c = any_rv_lww();
    assume_unique_stamps(&a, &b);
    assume_unique_stamps(&a, &c);
    assume_unique_stamps(&b, &c);
    let l = a.merge(&b).merge(&c);
    let r = a.merge(&b.merge(&c));
    obs_checks!(&l, &r, "assoc");
    std::mem::forget((a, b, c, l, r));
}
/// vacuity twin: must come back FAILED
pub fn twin() {
    let a = any_rv_lww();
    let b = any_rv_lww();
    assume_unique_stamps(&a, &b);
    let ab = a.merge(&b);
    vcheck!(false, "twin:reachable");
    std::mem::forget((a, b, ab));
}
