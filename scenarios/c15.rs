//! C15 — RESP decoding is total, bounded, prefix-stable; both decoders, one template per instance.
//! Recipe (DESIGN 1.4): every wire field that determines a size (type byte, length text, buffer length)
//! is concrete per instance; every other byte is symbolic.
use crate::vs;
use bytes::BytesMut;
use redis_sim::redis::{RespCodec, RespParser, RespValue, RespValueZeroCopy};

pub const MAXB: usize = 32;

/// image = head (concrete) ++ `tail` symbolic bytes; returns (bytes, total length)
fn image(head: &[u8], tail: usize) -> ([u8; MAXB], usize) {
    let mut b = [0u8; MAXB];
    super::util::put_const(&mut b, 0, head);
    let mut k = 0;
    while k < tail { b[head.len() + k] = vs::u8(); k += 1; }
    (b, head.len() + tail)
}

/// outcome of one decoder on a buffer, normalised: 0 = needs more bytes, 1 = protocol error, 2 = value
pub struct Out { pub kind: u8, pub consumed: usize }

/// production decoder at slice level (`RespCodec::try_parse`, the function behind `parse`): "Incomplete" is
/// the need-more signal exactly as `parse` maps it
fn run_codec(bytes: &[u8]) -> (Out, Option<RespValueZeroCopy>) {
    match RespCodec::verif_try_parse(bytes) {
        Ok((v, used)) => (Out { kind: 2, consumed: used }, Some(v)),
        Err(e) => {
            let inc = e.as_bytes() == b"Incomplete";
            std::mem::forget(e);
            (Out { kind: if inc { 0 } else { 1 }, consumed: 0 }, None)
        }
    }
}
/// production decoder through its buffer API (`RespCodec::parse` on a BytesMut, consuming what it decodes)
fn run_codec_buffered(bytes: &[u8]) -> (Out, Option<RespValueZeroCopy>) {
    let mut buf = BytesMut::with_capacity(MAXB);
    buf.extend_from_slice(bytes);
    let before = buf.len();
    let r = RespCodec::parse(&mut buf);
    let out = match r {
        Ok(Some(v)) => (Out { kind: 2, consumed: before - buf.len() }, Some(v)),
        Ok(None) => (Out { kind: 0, consumed: before - buf.len() }, None),
        Err(_e) => { std::mem::forget(_e); (Out { kind: 1, consumed: before - buf.len() }, None) }
    };
    std::mem::forget(buf);
    out
}
fn run_parser(bytes: &[u8]) -> (Out, Option<RespValue>) {
    match RespParser::parse(bytes) {
        Ok((v, used)) => (Out { kind: 2, consumed: used }, Some(v)),
        // the simulation parser has no "incomplete" signal: every failure is an error string
        Err(_e) => { std::mem::forget(_e); (Out { kind: 1, consumed: 0 }, None) }
    }
}

fn bytes_eq(a: &[u8], b: &[u8]) -> bool {
    if a.len() != b.len() { return false; }
    let mut i = 0;
    while i < a.len() { if a[i] != b[i] { return false; } i += 1; }
    true
}

/// `$<lentext>\r\n` + `tail` symbolic bytes. `declared`: the value of lentext as Redis reads it
/// (None = not a valid length: negative other than -1, non-numeric, or beyond i64).
pub fn bulk(lentext: &'static [u8], declared: Option<i64>, tail: usize) {
    let mut head = [0u8; 32];
    head[0] = b'$';
    super::util::put_const(&mut head, 1, lentext);
    head[1 + lentext.len()] = b'\r';
    head[2 + lentext.len()] = b'\n';
    let hl = 3 + lentext.len();
    let (b, n) = image(&head[..hl], tail);
    let t = &b[hl..n];

    let (oc, vc) = run_codec(&b[..n]);
    let (op, vp) = run_parser(&b[..n]);

    vcheck!(oc.consumed <= n && op.consumed <= n, "bulk:consumed within buffer");
    match declared {
        None => {
            vcheck!(oc.kind == 1, "bulk:invalid length is a protocol error (codec)");
            vcheck!(op.kind == 1, "bulk:invalid length is a protocol error (parser)");
        }
        Some(-1) => {
            vcheck!(oc.kind == 2 && oc.consumed == hl && matches!(vc, Some(RespValueZeroCopy::BulkString(None))), "bulk:nil (codec)");
            vcheck!(op.kind == 2 && op.consumed == hl && matches!(vp, Some(RespValue::BulkString(None))), "bulk:nil (parser)");
        }
        Some(d) => {
            let d = d as u64;
            if d <= (MAXB as u64) && (d as usize) + 2 <= tail {
                let d = d as usize;
                let wellformed = t[d] == b'\r' && t[d + 1] == b'\n';
                if wellformed {
                    vcheck!(oc.kind == 2 && oc.consumed == hl + d + 2, "bulk:well-formed frame accepted with exact size (codec)");
                    vcheck!(op.kind == 2 && op.consumed == hl + d + 2, "bulk:well-formed frame accepted with exact size (parser)");
                    vcheck!(match &vc { Some(RespValueZeroCopy::BulkString(Some(x))) => bytes_eq(x, &t[..d]), _ => false }, "bulk:payload (codec)");
                    vcheck!(match &vp { Some(RespValue::BulkString(Some(x))) => bytes_eq(x, &t[..d]), _ => false }, "bulk:payload (parser)");
                } else {
                    vcheck!(oc.kind != 2, "bulk:missing CRLF terminator accepted (codec)");
                    vcheck!(op.kind != 2, "bulk:missing CRLF terminator accepted (parser)");
                    vcheck!(oc.kind == 1, "bulk:complete malformed frame must be an error, not 'need more' (codec)");
                }
                vcover!(wellformed, "well-formed instance");
                vcover!(!wellformed, "malformed terminator instance");
            } else {
                vcheck!(oc.kind == 0 && oc.consumed == 0, "bulk:short buffer reports need-more and consumes nothing (codec)");
                vcheck!(op.kind == 1, "bulk:short buffer is an error (parser)");
            }
        }
    }
    vcheck!(crate::vs::alloc_ok(), "alloc:bounded by buffer");
    std::mem::forget((vc, vp));
}

/// the buffer API agrees with the slice-level decoder: same verdict, and it consumes exactly what was decoded
pub fn buffered_agrees(lentext: &'static [u8], tail: usize) {
    let mut head = [0u8; 32];
    head[0] = b'$';
    super::util::put_const(&mut head, 1, lentext);
    head[1 + lentext.len()] = b'\r';
    head[2 + lentext.len()] = b'\n';
    let hl = 3 + lentext.len();
    let (b, n) = image(&head[..hl], tail);
    let (o1, v1) = run_codec(&b[..n]);
    let (o2, v2) = run_codec_buffered(&b[..n]);
    vcheck!(o1.kind == o2.kind, "buffer:parse() and the slice decoder disagree on the verdict");
    vcheck!(o1.consumed == o2.consumed, "buffer:parse() consumes a different number of bytes than it decoded");
    std::mem::forget((v1, v2));
}

/// `+`/`-`/`:` line: type byte + `tail` symbolic bytes. Reference: the line ends at the first "\r\n" pair.
/// `which`: 1 = production decoder (RespCodec) only, 2 = simulation decoder (RespParser) only
pub fn line(ty: u8, tail: usize, which: u8) {
    let head = [ty];
    let (b, n) = image(&head, tail);
    let mut pos: Option<usize> = None;
    let mut i = 1;
    while i + 1 < n { if pos.is_none() && b[i] == b'\r' && b[i + 1] == b'\n' { pos = Some(i); } i += 1; }
    if which == 1 {
        let (oc, vc) = run_codec(&b[..n]);
        vcheck!(oc.consumed <= n, "line:consumed within buffer");
        match pos {
            None => { vcheck!(oc.kind == 0 && oc.consumed == 0, "line:no CRLF yet -> need more, nothing consumed (codec)"); }
            Some(p) => {
                if ty == b':' {
                    // integer text is validated by the decoder; only framing is checked here
                    vcheck!(oc.kind != 0, "line:complete integer line decided (codec)");
                    vcheck!(oc.kind != 2 || oc.consumed == p + 2, "line:integer consumed == line (codec)");
                } else {
                    vcheck!(oc.kind == 2 && oc.consumed == p + 2, "line:complete line accepted with exact size (codec)");
                    let okc = match &vc {
                        Some(RespValueZeroCopy::SimpleString(x)) => ty == b'+' && bytes_eq(x, &b[1..p]),
                        Some(RespValueZeroCopy::Error(x)) => ty == b'-' && bytes_eq(x, &b[1..p]),
                        _ => false,
                    };
                    vcheck!(okc, "line:content (codec)");
                }
            }
        }
        std::mem::forget(vc);
    } else {
        let (op, vp) = run_parser(&b[..n]);
        vcheck!(op.consumed <= n, "line:consumed within buffer");
        match pos {
            None => { vcheck!(op.kind == 1, "line:no CRLF -> error (parser)"); }
            Some(p) => {
                if ty == b':' {
                    vcheck!(op.kind != 2 || op.consumed == p + 2, "line:integer consumed == line (parser)");
                } else {
                    vcheck!(op.kind == 2 && op.consumed == p + 2, "line:complete line accepted with exact size (parser)");
                }
            }
        }
        std::mem::forget(vp);
    }
    vcover!(pos.is_some(), "CRLF present");
    vcover!(pos.is_none(), "CRLF absent");
}
fn utf8_ok(b: &[u8]) -> bool { let mut i = 0; while i < b.len() { if b[i] >= 0x80 { return false; } i += 1; } true }

/// `*<lentext>\r\n` followed by a concrete-structure tail: `nelem` elements `$1\r\n?\r\n` with symbolic payloads
/// (and, when `partial`, the last element cut after its header).
pub fn array(lentext: &'static [u8], declared: Option<i64>, nelem: usize, partial: bool) {
    let mut b = [0u8; 48];
    b[0] = b'*';
    super::util::put_const(&mut b, 1, lentext);
    b[1 + lentext.len()] = b'\r';
    b[2 + lentext.len()] = b'\n';
    let hl = 3 + lentext.len();
    let mut n = hl;
    let mut k = 0;
    while k < nelem {
        b[n] = b'$'; b[n + 1] = b'1'; b[n + 2] = b'\r'; b[n + 3] = b'\n';
        if partial && k + 1 == nelem { n += 4; } else { b[n + 4] = vs::u8(); b[n + 5] = b'\r'; b[n + 6] = b'\n'; n += 7; }
        k += 1;
    }
    let complete = if partial && nelem > 0 { nelem - 1 } else { nelem };
    let (oc, vc) = run_codec(&b[..n]);
    let (op, vp) = run_parser(&b[..n]);
    vcheck!(oc.consumed <= n && op.consumed <= n, "array:consumed within buffer");
    match declared {
        None => {
            vcheck!(oc.kind == 1, "array:invalid length is a protocol error (codec)");
            vcheck!(op.kind == 1, "array:invalid length is a protocol error (parser)");
        }
        Some(-1) => {
            vcheck!(oc.kind == 2 && oc.consumed == hl && matches!(vc, Some(RespValueZeroCopy::Array(None))), "array:nil (codec)");
            vcheck!(op.kind == 2 && op.consumed == hl, "array:nil (parser)");
        }
        Some(d) => {
            if (d as u64) <= complete as u64 {
                let d = d as usize;
                vcheck!(oc.kind == 2 && oc.consumed == hl + 7 * d, "array:d complete elements accepted with exact size (codec)");
                vcheck!(op.kind == 2 && op.consumed == hl + 7 * d, "array:d complete elements accepted with exact size (parser)");
                vcheck!(match &vc { Some(RespValueZeroCopy::Array(Some(v))) => v.len() == d, _ => false }, "array:element count (codec)");
                vcheck!(match &vp { Some(RespValue::Array(Some(v))) => v.len() == d, _ => false }, "array:element count (parser)");
            } else {
                vcheck!(oc.kind == 0 && oc.consumed == 0, "array:fewer elements than declared -> need more, nothing consumed (codec)");
                vcheck!(op.kind == 1, "array:fewer elements than declared -> error (parser)");
            }
        }
    }
    vcheck!(crate::vs::alloc_ok(), "alloc:bounded by buffer");
    std::mem::forget((vc, vp));
}

/// prefix stability of the streaming decoder on a bulk-string frame of declared length 2:
/// a verdict on a prefix is never contradicted once more bytes arrive.
pub fn prefix_stable_bulk(cut: usize) {
    let head = [b'$', b'2', b'\r', b'\n'];
    let (b, n) = image(&head, 5);
    let (o1, v1) = run_codec_buffered(&b[..cut]);
    let (o2, v2) = run_codec_buffered(&b[..n]);
    if o1.kind == 2 {
        vcheck!(o2.kind == 2 && o2.consumed == o1.consumed, "prefix:value on a prefix stays the same value on the whole");
    }
    if o1.kind == 1 {
        vcheck!(o2.kind == 1, "prefix:error on a prefix stays an error");
    }
    vcover!(o1.kind == 0 && o2.kind == 2, "incomplete then complete");
    std::mem::forget((v1, v2));
}

pub fn twin() {
    let (b, n) = image(&[b'$', b'1', b'\r', b'\n'], 3);
    let (oc, vc) = run_codec(&b[..n]);
    vcheck!(oc.kind != 2, "twin:reachable");
    std::mem::forget(vc);
}
