//! C18 — anti-entropy digests: order independence, soundness (equal digest => equal state), on the real
//! KeyDigest / MerkleNode / StateDigest code with the transparent hasher model.
use super::util::*;
use crate::vs;
use redis_sim::redis::SDS;
use redis_sim::replication::anti_entropy::{KeyDigest, MerkleNode, StateDigest};
use redis_sim::replication::lattice::{LamportClock, LwwRegister, ReplicaId};
use redis_sim::replication::state::{CrdtValue, ReplicatedValue};

fn any_digest() -> KeyDigest { KeyDigest { key_hash: vs::u64(), value_hash: vs::u64(), timestamp: vs::u64() } }

/// folding the same digests in another order gives the same bucket node (n = 2 or 3 digests)
pub fn bucket_order(n: usize) {
    let d = [any_digest(), any_digest(), any_digest()];
    // distinct keys have distinct key hashes (one map entry per key)
    vs::assume(d[0].key_hash != d[1].key_hash && d[0].key_hash != d[2].key_hash && d[1].key_hash != d[2].key_hash);
    let p = vs::u8();
    vs::assume(p < 6);
    let perm: [usize; 3] = match p { 0 => [0, 1, 2], 1 => [0, 2, 1], 2 => [1, 0, 2], 3 => [1, 2, 0], 4 => [2, 0, 1], _ => [2, 1, 0] };
    crate::vs::streams_reset();
    let (x, y) = if n == 2 {
        vs::assume(p < 2);
        let q = if p == 0 { [d[0], d[1]] } else { [d[1], d[0]] };
        (MerkleNode::from_digests(&[d[0], d[1]]), MerkleNode::from_digests(&q))
    } else {
        (MerkleNode::from_digests(&d), MerkleNode::from_digests(&[d[perm[0]], d[perm[1]], d[perm[2]]]))
    };
    let same_hash = if vs::NATIVE { x.hash == y.hash } else { vs::streams_equal(0, 1) };
    vcheck!(same_hash, "digest:bucket hash depends on the order the keys are folded");
    vcheck!(x.count == y.count && x.max_timestamp == y.max_timestamp, "digest:bucket count/max stamp depend on order");
    vcover!(p != 0, "a non-identity permutation");
}

/// soundness of the bucket hash: two buckets of 2 digests each get the same hash only if they hold the
/// same (key, value) digest pairs
pub fn bucket_sound() {
    let d = [any_digest(), any_digest()];
    let e = [any_digest(), any_digest()];
    vs::assume(d[0].key_hash != d[1].key_hash && e[0].key_hash != e[1].key_hash);
    crate::vs::streams_reset();
    let x = MerkleNode::from_digests(&d); // hasher #0
    let y = MerkleNode::from_digests(&e); // hasher #1
    let same_hash = if vs::NATIVE { x.hash == y.hash } else { vs::streams_equal(0, 1) };
    let pair = |p: &KeyDigest, q: &KeyDigest| p.key_hash == q.key_hash && p.value_hash == q.value_hash;
    let same_content = (pair(&d[0], &e[0]) && pair(&d[1], &e[1])) || (pair(&d[0], &e[1]) && pair(&d[1], &e[0]));
    vcheck!(!same_hash || same_content, "digest:buckets with different key/value pairs share a hash (false 'in sync')");
    vcheck!(!same_content || same_hash, "digest:buckets with the same key/value pairs have different hashes");
    vcover!(same_hash, "equal bucket hashes reachable");
}

fn lww_value(b: u8, tomb: bool, ts: LamportClock, exp: Option<u64>) -> ReplicatedValue {
    ReplicatedValue {
        crdt: CrdtValue::Lww(LwwRegister { value: if tomb { None } else { Some(sds1(b)) }, timestamp: ts, tombstone: tomb }),
        vector_clock: None, expiry_ms: exp, timestamp: ts, replication_factor: None,
    }
}

/// the same two keys inserted into the state map in both orders: digests must not differ
pub fn state_insertion_order(depth: usize) {
    let (ta, tb) = (any_clock(), any_clock());
    let (xa, xb) = (vs::u8(), vs::u8());
    let va = lww_value(xa, false, ta, None);
    let vb = lww_value(xb, false, tb, None);
    let mut m1 = crate::coll::HashMap::new();
    m1.insert("a".to_string(), va.clone());
    m1.insert("b".to_string(), vb.clone());
    let mut m2 = crate::coll::HashMap::new();
    m2.insert("b".to_string(), vb);
    m2.insert("a".to_string(), va);
    let d1 = StateDigest::from_state(&m1, ReplicaId(1), 0, depth);
    let d2 = StateDigest::from_state(&m2, ReplicaId(2), 0, depth);
    vcheck!(!d1.differs_from(&d2), "digest:equal states built in different insertion orders report divergence");
    let div = d1.divergent_buckets(&d2);
    vcheck!(div.is_empty(), "digest:equal states have divergent buckets");
    vcheck!(d1.key_count == 2 && d2.key_count == 2, "digest:key count");
    std::mem::forget((d1, d2, div, m1, m2));
}

/// soundness for one key: equal digests => equal observable value. kind: 0 = LWW (value/tombstone/stamp),
/// 1 = LWW differing only in expiry, 2 = hash {f} with the same outer stamp
pub fn key_digest_sound(kind: u8) {
    let ts = any_clock();
    let (a, b) = match kind {
        0 => {
            let (t2, x, y, ta, tb) = (any_clock(), vs::u8(), vs::u8(), vs::bool(), vs::bool());
            // unique stamps (C08): equal stamps => identical register
            vs::assume(ts != t2 || (x == y && ta == tb));
            (lww_value(x, ta, ts, None), lww_value(y, tb, t2, None))
        }
        1 => {
            let x = vs::u8();
            (lww_value(x, false, ts, any_opt_u64()), lww_value(x, false, ts, any_opt_u64()))
        }
        _ => {
            // two replicas hold hash k with the same outer stamp (the join of what both have seen) but one
            // has merged a field update the other has not received yet
            let (f1, f2) = (any_clock(), any_clock());
            vs::assume(f1 <= ts && f2 <= ts && f1 != f2);
            let (x, y) = (vs::u8(), vs::u8());
            let mut h1 = crate::coll::HashMap::new();
            h1.insert("f".to_string(), LwwRegister { value: Some(sds1(x)), timestamp: f1, tombstone: false });
            let mut h2 = crate::coll::HashMap::new();
            h2.insert("f".to_string(), LwwRegister { value: Some(sds1(y)), timestamp: f2, tombstone: false });
            (ReplicatedValue { crdt: CrdtValue::Hash(h1), vector_clock: None, expiry_ms: None, timestamp: ts, replication_factor: None },
             ReplicatedValue { crdt: CrdtValue::Hash(h2), vector_clock: None, expiry_ms: None, timestamp: ts, replication_factor: None })
        }
    };
    crate::vs::streams_reset();
    let da = KeyDigest::new("k", &a); // hashers #0 (key) and #1 (value)
    let db = KeyDigest::new("k", &b); // hashers #2 and #3
    let same_digest = if vs::NATIVE { da == db } else { vs::streams_equal(1, 3) && da.timestamp == db.timestamp };
    let same_obs = opt_sds_eq(a.get(), b.get()) && a.is_tombstone() == b.is_tombstone() && a.timestamp == b.timestamp
        && a.expiry_ms == b.expiry_ms
        && opt_sds_eq(a.hash_get("f"), b.hash_get("f"))
        && a.get_hash().and_then(|h| h.get("f")).map(|l| (l.timestamp, l.tombstone)) == b.get_hash().and_then(|h| h.get("f")).map(|l| (l.timestamp, l.tombstone));
    vcheck!(!same_digest || same_obs, "digest:different values share a digest (false 'in sync')");
    vcheck!(!same_obs || same_digest, "digest:equal values have different digests (perpetual 'divergent')");
    vcover!(same_digest, "equal digests reachable");
    std::mem::forget((a, b));
}

pub fn twin() {
    let d = [any_digest(), any_digest()];
    let x = MerkleNode::from_digests(&d);
    vcheck!(x.count != 2, "twin:reachable");
}

// ---------------------------------------------------------------------------------------------------------------
// sync: which keys a replica offers for the divergent buckets, under the per-round key limit
use redis_sim::replication::anti_entropy::{AntiEntropyConfig, AntiEntropyManager};
use redis_sim::replication::state::ShardReplicaState;

fn manager(limit: usize, depth: usize) -> AntiEntropyManager {
    AntiEntropyManager::new(ReplicaId(1), AntiEntropyConfig { sync_interval_ms: 1000, max_keys_per_sync: limit, merkle_tree_depth: depth, auto_sync_on_heal: true })
}

/// a replica holds two keys in different buckets (depth 8); only the second key's bucket is divergent. With a per-round
/// limit of 1 the divergent key must still be offered: the limit bounds what is SENT, it must not cut the search short.
/// (values symbolic; the key names are chosen so that their buckets differ - natively several name pairs are swept,
/// because the real map's iteration order is not under the caller's control)
pub fn sync_offer() {
    let (ta, tb) = (any_clock(), any_clock());
    let (xa, xb) = (vs::u8(), vs::u8());
    let names: [&str; 6] = ["a", "b", "c", "d", "e", "f"];
    let mgr = manager(1, 8);
    let mut ok = true;
    let mut tried = 0;
    let mut i = 0;
    while i < 6 {
        let mut j = 0;
        while j < 6 {
            if i != j && (vs::NATIVE || tried == 0) {
                let (va, vb) = (lww_value(xa, false, ta, None), lww_value(xb, false, tb, None));
                let (ba, bb) = (KeyDigest::new(names[i], &va).bucket(8), KeyDigest::new(names[j], &vb).bucket(8));
                if ba != bb {
                    tried += 1;
                    let mut m = crate::coll::HashMap::new();
                    m.insert(names[i].to_string(), va);
                    m.insert(names[j].to_string(), vb);
                    let out = mgr.get_keys_in_buckets(&m, &[bb]);
                    if !(out.len() == 1 && out[0].key.as_bytes() == names[j].as_bytes()) { ok = false; }
                    std::mem::forget((out, m));
                }
            }
            j += 1;
        }
        i += 1;
    }
    vcheck!(tried > 0, "sync:no key pair with different buckets found (harness)");
    vcheck!(ok, "sync:a key of a divergent bucket is not offered although the per-round limit was not reached");
}

/// bounded liveness: replica A holds keys "a" and "b" (one bucket, depth 0) that replica B lacks; per-round limit 1;
/// after `rounds` rounds of (A offers the keys of the divergent bucket, B applies them) B must hold both keys.
pub fn sync_rounds(rounds: usize) {
    let (ta, tb) = (any_clock(), any_clock());
    let (xa, xb) = (vs::u8(), vs::u8());
    let mgr = manager(1, 0);
    let mut a = crate::coll::HashMap::new();
    a.insert("a".to_string(), lww_value(xa, false, ta, None));
    a.insert("b".to_string(), lww_value(xb, false, tb, None));
    let mut b = ShardReplicaState::new(ReplicaId(2), redis_sim::replication::config::ConsistencyLevel::Eventual);
    let mut r = 0;
    while r < rounds {
        let out = mgr.get_keys_in_buckets(&a, &[0]);
        vcheck!(out.len() == 1, "sync:the per-round limit is not respected");
        for d in out { b.apply_remote_delta(d); }
        r += 1;
    }
    let done = b.replicated_keys.get("a").is_some() && b.replicated_keys.get("b").is_some();
    vcheck!(done, "sync:a replica never receives a key of a divergent bucket that holds more keys than the per-round limit");
    std::mem::forget((a, b));
}
