//! C05 — MULTI/EXEC is all-or-nothing and equals sequential execution; WATCH aborts on change.
//! Executor-level transaction machinery (src/redis/executor/transaction_ops.rs + the queueing prefix of
//! CommandExecutor::execute). Every command goes through `CommandExecutor::execute`; under Kani that symbol is
//! replaced by the S6 extraction `verif_execute_small` (the same text with the dispatch `match` restricted to a
//! command alphabet), so EXEC's own replay loop runs through it too. Natively the real execute() runs.
//! Commands are concrete per instance, their numeric arguments, stored values and payload bytes are symbolic.
use super::util::sds1;
use crate::vs;
use redis_sim::redis::{Command, CommandExecutor, RedisList, RespValue, Value, SDS};
use redis_sim::simulator::VirtualTime;

fn k() -> String { "k".to_string() }
fn is_err(r: &RespValue) -> bool { matches!(r, RespValue::Error(_)) }
fn is_queued(r: &RespValue) -> bool { matches!(r, RespValue::SimpleString(s) if s.as_ref() as &str == "QUEUED") }
fn is_ok(r: &RespValue) -> bool { matches!(r, RespValue::SimpleString(s) if s.as_ref() as &str == "OK") }

/// observable state of key "k": (exists, type tag, length, first two bytes)
#[derive(PartialEq, Clone, Copy)]
pub struct Snap { exists: bool, ty: u8, size: usize, b0: u8, b1: u8 }
fn snap(ex: &CommandExecutor) -> Snap {
    match ex.verif_data().get("k") {
        None => Snap { exists: false, ty: 0, size: 0, b0: 0, b1: 0 },
        Some(Value::String(s)) => { let b = s.as_bytes(); Snap { exists: true, ty: 1, size: b.len(), b0: if b.len() > 0 { b[0] } else { 0 }, b1: if b.len() > 1 { b[1] } else { 0 } } }
        Some(Value::List(l)) => Snap { exists: true, ty: 2, size: l.len(), b0: l.get(0).map(|s| s.as_bytes()[0]).unwrap_or(0), b1: 0 },
        Some(_) => Snap { exists: true, ty: 9, size: 0, b0: 0, b1: 0 },
    }
}

/// pre-state of "k": 0 absent, 1 string holding one symbolic digit (an integer), 2 string holding one arbitrary
/// byte, 3 list [x]. The same symbolic bytes are used for every executor of a harness.
fn install(ex: &mut CommandExecutor, pre: u8, x: u8) {
    match pre {
        0 => {}
        1 => { ex.verif_data_mut().insert(k(), Value::String(sds1(b'0' + (x % 10)))); }
        2 => { ex.verif_data_mut().insert(k(), Value::String(sds1(x))); }
        _ => { let mut l = RedisList::new(); l.rpush(sds1(x)); ex.verif_data_mut().insert(k(), Value::List(l)); }
    }
}
fn fresh(pre: u8, x: u8) -> CommandExecutor {
    let mut ex = CommandExecutor::verif_new_bare();
    ex.update_time_readonly(VirtualTime::from_millis(10));
    install(&mut ex, pre, x);
    ex
}

/// command menu (concrete choice per instance; arguments symbolic and shared by the twin executors)
/// 0 INCR k | 1 INCRBY k n | 2 SET k v | 3 DEL k | 4 GET k | 5 APPEND k v | 6 LPUSH k v | 7 DECRBY k n
fn cmd(which: u8, n: i64, v: u8) -> Command {
    match which {
        0 => Command::Incr(k()),
        1 => Command::IncrBy(k(), n),
        2 => Command::Set { key: k(), value: sds1(v), ex: None, px: None, exat: None, pxat: None, nx: false, xx: false, get: false, keepttl: false },
        3 => Command::Del(vec![k()]),
        4 => Command::Get(k()),
        5 => Command::Append(k(), sds1(v)),
        6 => Command::LPush(k(), vec![sds1(v)]),
        _ => Command::DecrBy(k(), n),
    }
}

/// MULTI c1 c2 EXEC on one executor vs c1 c2 on a twin: QUEUED replies, no effect before EXEC, one result per
/// command equal to the sequential replies, same final state; errors inside the body do not stop the rest.
pub fn exec_equals_sequential(pre: u8, c1: u8, c2: u8) {
    let x = vs::u8();
    let (n1, n2) = (vs::i64(), vs::i64());
    let (v1, v2) = (vs::u8(), vs::u8());
    let mut a = fresh(pre, x);
    let mut b = fresh(pre, x);
    let before = snap(&a);
    let m = a.execute(&Command::Multi);
    vcheck!(is_ok(&m), "multi:MULTI outside a transaction must reply OK");
    let (ca, cb) = (cmd(c1, n1, v1), cmd(c2, n2, v2));
    let q1 = a.execute(&ca);
    let q2 = a.execute(&cb);
    vcheck!(is_queued(&q1) && is_queued(&q2), "multi:a command inside MULTI is not answered QUEUED");
    vcheck!(snap(&a) == before, "multi:a queued command took effect before EXEC");
    let r = a.execute(&Command::Exec);
    let s1 = b.execute(&ca);
    let s2 = b.execute(&cb);
    match &r {
        RespValue::Array(Some(rs)) => {
            vcheck!(rs.len() == 2, "exec:not exactly one result per queued command");
            if rs.len() == 2 {
                vcheck!(rs[0] == s1, "exec:first result differs from executing the command directly");
                vcheck!(rs[1] == s2, "exec:second result differs from executing the commands consecutively");
            }
        }
        _ => { vcheck!(false, "exec:EXEC of a queued transaction without WATCH did not return an array"); }
    }
    vcheck!(snap(&a) == snap(&b), "exec:final state differs from sequential execution");
    let again = a.execute(&Command::Exec);
    vcheck!(is_err(&again), "exec:transaction state not reset (second EXEC must fail)");
    vcover!(is_err(&s1), "first command fails");
    vcover!(!is_err(&s1) && !is_err(&s2), "both succeed");
    std::mem::forget((m, q1, q2, r, s1, s2, again, ca, cb, a, b));
}

/// MULTI c1 DISCARD: keyspace untouched, transaction closed, later commands run directly again.
pub fn discard_leaves_nothing(pre: u8, c1: u8) {
    let x = vs::u8();
    let n1 = vs::i64();
    let v1 = vs::u8();
    let mut a = fresh(pre, x);
    let before = snap(&a);
    let m = a.execute(&Command::Multi);
    let ca = cmd(c1, n1, v1);
    let q1 = a.execute(&ca);
    let d = a.execute(&Command::Discard);
    vcheck!(is_ok(&m) && is_queued(&q1) && is_ok(&d), "discard:MULTI / queued command / DISCARD replies");
    vcheck!(snap(&a) == before, "discard:DISCARD left an effect of a queued command");
    let e = a.execute(&Command::Exec);
    vcheck!(is_err(&e), "discard:EXEC after DISCARD must fail (no open transaction)");
    vcheck!(snap(&a) == before, "discard:EXEC after DISCARD executed the discarded queue");
    let g = a.execute(&Command::Get(k()));
    vcheck!(!is_queued(&g), "discard:commands are still queued after DISCARD");
    let d2 = a.execute(&Command::Discard);
    vcheck!(is_err(&d2), "discard:DISCARD without MULTI must fail");
    std::mem::forget((m, q1, d, e, g, d2, ca, a));
}

/// WATCH k; another client runs `other` (0 nothing, 1 SET k w, 2 DEL k, 3 LPUSH/type change, 4 INCR);
/// MULTI c1 EXEC: nil and nothing applied iff the value of k at EXEC differs from the value at WATCH.
pub fn watch_aborts_iff_changed(pre: u8, other: u8, c1: u8) {
    let x = vs::u8();
    let n1 = vs::i64();
    let (v1, w) = (vs::u8(), vs::u8());
    let mut a = fresh(pre, x);
    let mut b = fresh(pre, x); // twin: same interference, then c1 directly
    let at_watch = snap(&a);
    let wr = a.execute(&Command::Watch(vec![k()]));
    vcheck!(is_ok(&wr), "watch:WATCH outside MULTI must reply OK");
    let oc = match other {
        0 => None,
        1 => Some(cmd(2, 0, w)),
        2 => Some(cmd(3, 0, 0)),
        3 => Some(cmd(6, 0, w)),
        _ => Some(cmd(0, 0, 0)),
    };
    if let Some(c) = &oc { let r1 = a.execute(c); let r2 = b.execute(c); std::mem::forget((r1, r2)); }
    let at_exec = snap(&a);
    let changed = at_exec != at_watch;
    let m = a.execute(&Command::Multi);
    let ca = cmd(c1, n1, v1);
    let q = a.execute(&ca);
    vcheck!(is_ok(&m) && is_queued(&q), "watch:MULTI / queued command replies");
    let r = a.execute(&Command::Exec);
    if changed {
        vcheck!(matches!(&r, RespValue::BulkString(None) | RespValue::Array(None)), "watch:EXEC must return nil when a watched key changed");
        vcheck!(snap(&a) == at_exec, "watch:an aborted EXEC applied a queued command");
    } else {
        let s = b.execute(&ca);
        let same = match &r { RespValue::Array(Some(rs)) => rs.len() == 1 && rs[0] == s, _ => false };
        vcheck!(same, "watch:EXEC must apply everything when no watched key changed");
        vcheck!(snap(&a) == snap(&b), "watch:state after an unhindered EXEC differs from direct execution");
        std::mem::forget(s);
    }
    // the watch is spent: a second transaction is not aborted by the old watch
    let m2 = a.execute(&Command::Multi);
    let q2 = a.execute(&Command::Get(k()));
    let r2 = a.execute(&Command::Exec);
    vcheck!(matches!(&r2, RespValue::Array(Some(rs)) if rs.len() == 1), "watch:watched keys not cleared by EXEC (a later transaction aborts)");
    vcover!(changed, "watched key changed");
    vcover!(!changed && other != 0, "interference that restores the same value");
    std::mem::forget((wr, oc, m, q, r, m2, q2, r2, ca, a, b));
}

/// state-machine edges: nested MULTI, EXEC/DISCARD without MULTI, WATCH inside MULTI (error, not queued),
/// UNWATCH forgets the snapshot.
pub fn edges() {
    let x = vs::u8();
    let w = vs::u8();
    let mut a = fresh(2, x);
    let e0 = a.execute(&Command::Exec);
    vcheck!(is_err(&e0), "edge:EXEC without MULTI must fail");
    let m = a.execute(&Command::Multi);
    let m2 = a.execute(&Command::Multi);
    vcheck!(is_ok(&m) && is_err(&m2), "edge:nested MULTI must fail");
    let wi = a.execute(&Command::Watch(vec![k()]));
    vcheck!(is_err(&wi), "edge:WATCH inside MULTI must fail");
    let r = a.execute(&Command::Exec);
    vcheck!(matches!(&r, RespValue::Array(Some(rs)) if rs.is_empty()), "edge:a failed nested MULTI / WATCH inside MULTI was queued or closed the transaction");
    // WATCH, change, UNWATCH, MULTI SET EXEC -> applies
    let w1 = a.execute(&Command::Watch(vec![k()]));
    let ch = a.execute(&cmd(2, 0, w));
    let uw = a.execute(&Command::Unwatch);
    let m3 = a.execute(&Command::Multi);
    let q = a.execute(&cmd(3, 0, 0));
    let r3 = a.execute(&Command::Exec);
    vcheck!(is_ok(&uw) && matches!(&r3, RespValue::Array(Some(rs)) if rs.len() == 1), "edge:UNWATCH did not forget the watched keys");
    vcheck!(!snap(&a).exists, "edge:transaction after UNWATCH was not applied");
    std::mem::forget((e0, m, m2, wi, r, w1, ch, uw, m3, q, r3, a));
}

pub fn twin() {
    let mut a = fresh(1, 3);
    let m = a.execute(&Command::Multi);
    let q = a.execute(&Command::Incr(k()));
    let r = a.execute(&Command::Exec);
    vcheck!(!matches!(&r, RespValue::Array(Some(rs)) if rs.len() == 1), "twin:reachable");
    std::mem::forget((m, q, r, a));
}
