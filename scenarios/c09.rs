//! C09 — always-fsync WAL: the obligation group commit relies on, on the real WalRotator/WalWriter:
//! "every append that returned Ok before a successful sync() lies inside the synced prefix of its file".
//! Environment = a model WalStore with symbolic faults: every append may fail after writing a symbolic
//! prefix, every fsync may fail, creation of a file may fail. Crash = keep `synced` bytes of every file.
use crate::vs;
use redis_sim::streaming::{WalEntry, WalError, WalFileReader, WalFileWriter, WalRotator, WalStore};

#[derive(Clone, Copy)]
pub struct FileSt { pub len: usize, pub synced: usize }
pub const MAXF: usize = 4;
pub struct Shared { pub files: [FileSt; MAXF], pub nfiles: usize, pub faults: bool }
pub static mut SH: Shared = Shared { files: [FileSt { len: 0, synced: 0 }; MAXF], nfiles: 0, faults: true };

#[derive(Clone)]
pub struct MStore;
pub struct MWriter { idx: usize }
pub struct MReader;
impl WalFileWriter for MWriter {
    fn append(&mut self, data: &[u8]) -> Result<u64, WalError> {
        unsafe {
            let fail = SH.faults && vs::bool();
            if fail {
                // failed or partial append: a symbolic prefix of the data lands in the file
                let part = vs::usize();
                vs::assume(part <= data.len());
                SH.files[self.idx].len += part;
                return Err(WalError::DiskFull);
            }
            SH.files[self.idx].len += data.len();
            Ok(SH.files[self.idx].len as u64)
        }
    }
    fn sync(&mut self) -> Result<(), WalError> {
        unsafe {
            let fail = SH.faults && vs::bool();
            if fail { return Err(WalError::DiskFull); }
            SH.files[self.idx].synced = SH.files[self.idx].len;
            Ok(())
        }
    }
    fn size(&self) -> u64 { unsafe { SH.files[self.idx].len as u64 } }
}
impl WalFileReader for MReader { fn read_all(&mut self) -> Result<Vec<u8>, WalError> { Ok(Vec::new()) } }
impl WalStore for MStore {
    type Writer = MWriter;
    type Reader = MReader;
    fn create(&self, _name: &str) -> Result<MWriter, WalError> {
        unsafe {
            vs::assume(SH.nfiles < MAXF);
            let fail = SH.faults && vs::bool();
            if fail { return Err(WalError::DiskFull); }
            let i = SH.nfiles;
            SH.nfiles += 1;
            SH.files[i] = FileSt { len: 0, synced: 0 };
            Ok(MWriter { idx: i })
        }
    }
    fn open_read(&self, _n: &str) -> Result<MReader, WalError> { Ok(MReader) }
    fn list(&self) -> Result<Vec<String>, WalError> { Ok(Vec::new()) }
    fn delete(&self, _n: &str) -> Result<(), WalError> { Ok(()) }
    fn exists(&self, _n: &str) -> Result<bool, WalError> { Ok(false) }
}

fn entry(ts: u64) -> WalEntry {
    // 4-byte payload, real CRC (constant): the rotator only looks at sizes
    WalEntry { data: vec![1u8, 2, 3, 4], timestamp: ts, checksum: 0xB63CFBCD }
}

/// k appends (entry size 20 bytes), rotation threshold symbolic in (16, 200) so that rotation may fall
/// anywhere inside the batch, all fault outcomes symbolic; `syncs` = number of sync() calls after which
/// the obligation is checked (a second batch follows the first when syncs == 2).
pub fn group_commit(k: usize, faults: bool) {
    unsafe { SH = Shared { files: [FileSt { len: 0, synced: 0 }; MAXF], nfiles: 0, faults }; }
    let max = vs::usize();
    vs::assume(max > 16 && max < 200);
    let mut rot = match WalRotator::new(MStore, max) { Ok(r) => r, Err(_) => return };
    let mut ok = [false; 4];
    let mut file_of = [0usize; 4];
    let mut end_of = [0usize; 4];
    let mut i = 0;
    while i < k {
        let e = entry(i as u64 + 1);
        let r = rot.append(&e);
        if r.is_ok() {
            ok[i] = true;
            unsafe { file_of[i] = SH.nfiles - 1; end_of[i] = SH.files[file_of[i]].len; }
        }
        std::mem::forget((r, e));
        i += 1;
    }
    let s = rot.sync();
    let synced_ok = s.is_ok();
    if synced_ok {
        let mut j = 0;
        while j < k {
            if ok[j] {
                let durable = unsafe { SH.files[file_of[j]].synced >= end_of[j] };
                vcheck!(durable, "durable:append acknowledged before a successful sync lies in the synced prefix of its file");
            }
            j += 1;
        }
    }
    unsafe {
        vcover!(synced_ok && SH.nfiles >= 2 && ok[0] && ok[k - 1] && file_of[0] != file_of[k - 1], "rotation inside the batch");
        vcover!(synced_ok && ok[0] && !ok[k - 1], "append failed inside the batch");
    }
    std::mem::forget((s, rot));
}

pub fn twin() {
    unsafe { SH = Shared { files: [FileSt { len: 0, synced: 0 }; MAXF], nfiles: 0, faults: true }; }
    let mut rot = match WalRotator::new(MStore, 64) { Ok(r) => r, Err(_) => return };
    let e = entry(1);
    let r = rot.append(&e);
    let s = rot.sync();
    vcheck!(!(r.is_ok() && s.is_ok()), "twin:reachable");
    std::mem::forget((r, s, e, rot));
}
