//! Scenario bodies shared by the Kani crate (/verif/kani; values = solver variables) and the native
//! replay crate (/verif/replay; values = a recorded counterexample, real /repo build).
//! Rules: draw values only through `crate::vs::*` (one primitive per draw), assert only through
//! `vcheck!`, state reachability witnesses through `vcover!`, build hash containers through
//! `crate::coll::*`, and `std::mem::forget` heap values at the end (drop glue is costly under CBMC).
#![allow(unused, clippy::all)]

pub mod util;
pub mod c07;

include!("registry.rs");
