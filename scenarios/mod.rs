//! Scenario bodies shared by the Kani crate (/verif/kani; values = solver variables) and the native
//! replay crate (/verif/replay; values = a recorded counterexample, real /repo build).
//! Rules: draw values only through `crate::vs::*` (one primitive per draw), assert only through
//! `vcheck!`, state reachability witnesses through `vcover!`, build hash containers through
//! `crate::coll::*`, and `std::mem::forget` heap values at the end (drop glue is costly under CBMC).
#![allow(unused, clippy::all)]

pub mod util;
pub mod c01;
pub mod c03;
pub mod c04;
pub mod c05;
pub mod c06;
pub mod c07;
pub mod c08;
pub mod c09;
pub mod c10;
pub mod c11;
pub mod c12;
pub mod c13;
pub mod c14;
pub mod c15;
pub mod c16;
pub mod c17;
pub mod c18;
pub mod c19;


use c16::A;
use redis_sim::redis::Command;

include!("registry.rs");
