//! C10 / C14(i) — WAL entry codec: decode is total, round-trips, and rejects damaged images.
use crate::vs;
use redis_sim::streaming::WalEntry;

fn any_payload(n: usize) -> Vec<u8> {
    let mut v = Vec::with_capacity(n);
    let mut i = 0;
    while i < n { v.push(vs::u8()); i += 1; }
    v
}

/// arbitrary 16+n bytes whose length field says n: decode never panics; Some => used == 16+n, len == n, CRC matches
pub fn decode_total(n: usize) {
    let mut img = Vec::with_capacity(16 + n);
    img.extend_from_slice(&(n as u32).to_le_bytes());
    let mut i = 0;
    while i < 12 + n { img.push(vs::u8()); i += 1; }
    let r = WalEntry::decode(&img);
    if let Some((e, used)) = &r {
        vcheck!(*used == 16 + n, "decode:consumed == 16+len");
        vcheck!(e.data.len() == n, "decode:payload length");
        vcheck!(e.validate(), "decode:returned entry validates");
        let mut k = 0;
        let mut same = true;
        while k < n { if e.data[k] != img[16 + k] { same = false; } k += 1; }
        vcheck!(same, "decode:payload bytes are the image bytes");
    }
    vcover!(r.is_some(), "decode accepts some image");
    vcover!(r.is_none(), "decode rejects some image");
    std::mem::forget((r, img));
}

/// encode(e) then decode: identical entry, for every stamp and payload of n bytes
pub fn roundtrip(n: usize) {
    let data = any_payload(n);
    let ts = vs::u64();
    let e = WalEntry { checksum: crc32fast::hash(&data), data, timestamp: ts };
    let img = e.encode();
    vcheck!(img.len() == 16 + n, "encode:length");
    let r = WalEntry::decode(&img);
    match &r {
        Some((d, used)) => {
            vcheck!(*used == img.len(), "roundtrip:consumed");
            vcheck!(d.timestamp == ts, "roundtrip:stamp");
            vcheck!(d.checksum == e.checksum, "roundtrip:checksum");
            let mut same = d.data.len() == n;
            let mut k = 0;
            while same && k < n { if d.data[k] != e.data[k] { same = false; } k += 1; }
            vcheck!(same, "roundtrip:payload");
        }
        None => { vcheck!(false, "roundtrip:decodes"); }
    }
    std::mem::forget((r, img, e));
}

/// every proper prefix of encode(e) is rejected (torn entry header or torn payload)
pub fn truncation(n: usize) {
    let data = any_payload(n);
    let ts = vs::u64();
    let e = WalEntry { checksum: crc32fast::hash(&data), data, timestamp: ts };
    let img = e.encode();
    let cut = vs::usize();
    vs::assume(cut < img.len());
    let r = WalEntry::decode(&img[..cut]);
    vcheck!(r.is_none(), "truncation:prefix rejected");
    std::mem::forget((r, img, e));
}

/// single-bit flip in field `region` (0 = length[0..4], 1 = stamp[4..12], 2 = crc[12..16], 3 = payload) of encode(e):
/// decode is None or returns e unchanged
pub fn bitflip(n: usize, region: u8) {
    let data = any_payload(n);
    let ts = vs::u64();
    let e = WalEntry { checksum: crc32fast::hash(&data), data, timestamp: ts };
    let mut img = e.encode();
    let (lo, hi) = match region { 0 => (0usize, 4usize), 1 => (4, 12), 2 => (12, 16), _ => (16, 16 + n) };
    let pos = vs::usize();
    vs::assume(pos >= lo && pos < hi);
    let bit = vs::u8();
    vs::assume(bit < 8);
    if region == 0 {
        // only flips that keep the declared length within the image are interesting; larger lengths are
        // "truncated" by construction and covered by decode_total/truncation
        vs::assume(pos == 0 && bit < 3);
    }
    img[pos] ^= 1u8 << bit;
    let r = WalEntry::decode(&img);
    if let Some((d, _)) = &r {
        match region {
            1 => { vcheck!(d.timestamp == ts, "bitflip:stamp altered but accepted"); }
            0 => { vcheck!(d.data.len() == n, "bitflip:length altered but accepted"); }
            2 => { vcheck!(false, "bitflip:crc altered but accepted"); }
            _ => { vcheck!(false, "bitflip:payload altered but accepted"); }
        }
    }
    std::mem::forget((r, img, e));
}

pub fn twin() {
    let data = any_payload(2);
    let e = WalEntry { checksum: crc32fast::hash(&data), data, timestamp: vs::u64() };
    let img = e.encode();
    let r = WalEntry::decode(&img);
    vcheck!(r.is_none(), "twin:reachable");
    std::mem::forget((r, img, e));
}
