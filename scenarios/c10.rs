//! C10 / C14(i) — WAL entry codec: decode is total, round-trips, and rejects damaged images.
//! Images live in stack arrays of concrete size (const generic N = payload length): a length field that has
//! been through a Vec is no longer a constant for CBMC and every loop behind it unrolls to the bound.
use crate::vs;
use redis_sim::streaming::WalEntry;

/// symbolic bytes from `from` on, by individual assignments (no loop: the harness's own loops must not force a
/// large unwinding bound onto the loops of the code under test)
fn fill<const M: usize>(a: &mut [u8; M], from: usize) {
    macro_rules! one { ($($i:literal)*) => { $( if from + $i < M { a[from + $i] = vs::u8(); } )* } }
    one!(0 1 2 3 4 5 6 7 8 9 10 11 12 13 14 15 16 17 18 19 20 21 22 23);
}
fn copy_into<const M: usize>(a: &mut [u8; M], v: &[u8]) {
    macro_rules! one { ($($i:literal)*) => { $( if $i < M && $i < v.len() { a[$i] = v[$i]; } )* } }
    one!(0 1 2 3 4 5 6 7 8 9 10 11 12 13 14 15 16 17 18 19 20 21 22 23);
}

/// arbitrary 16+N bytes whose length field says N: decode never panics; Some => used == 16+N, len == N, CRC matches
pub fn decode_total<const N: usize, const M: usize>() {
    let mut img = [0u8; M]; // M = 16 + N
    img[0] = N as u8;
    fill(&mut img, 4);
    let r = WalEntry::decode(&img);
    if let Some((e, used)) = &r {
        vcheck!(*used == 16 + N, "decode:consumed == 16+len");
        vcheck!(e.data.len() == N, "decode:payload length");
        vcheck!(e.validate(), "decode:returned entry validates");
        let mut k = 0;
        let mut same = e.data.len() == N;
        while same && k < N { if e.data[k] != img[16 + k] { same = false; } k += 1; }
        vcheck!(same, "decode:payload bytes are the image bytes");
        let ts = u64::from_le_bytes([img[4], img[5], img[6], img[7], img[8], img[9], img[10], img[11]]);
        vcheck!(e.timestamp == ts, "decode:stamp is the image's stamp field");
    }
    vcover!(r.is_some(), "decode accepts some image");
    vcover!(r.is_none(), "decode rejects some image");
    std::mem::forget(r);
}

fn entry<const N: usize>(ts: u64) -> (WalEntry, [u8; N]) {
    let mut p = [0u8; N];
    fill(&mut p, 0);
    let data = p.to_vec();
    (WalEntry { checksum: crc32fast::hash(&p), data, timestamp: ts }, p)
}
fn image<const M: usize>(e: &WalEntry) -> [u8; M] {
    let v = e.encode();
    let mut a = [0u8; M];
    copy_into(&mut a, &v);
    std::mem::forget(v);
    a
}

/// encode(e) then decode: identical entry, for every stamp and payload of N bytes
pub fn roundtrip<const N: usize, const M: usize>() {
    let ts = vs::u64();
    let (e, p) = entry::<N>(ts);
    let v = e.encode();
    vcheck!(v.len() == 16 + N, "encode:length");
    let img: [u8; M] = image(&e);
    vcheck!(img[0] as usize == N && img[1] == 0 && img[2] == 0 && img[3] == 0, "encode:length field");
    let r = WalEntry::decode(&img);
    match &r {
        Some((d, used)) => {
            vcheck!(*used == M, "roundtrip:consumed");
            vcheck!(d.timestamp == ts, "roundtrip:stamp");
            vcheck!(d.checksum == e.checksum, "roundtrip:checksum");
            let mut same = d.data.len() == N;
            let mut k = 0;
            while same && k < N { if d.data[k] != p[k] { same = false; } k += 1; }
            vcheck!(same, "roundtrip:payload");
        }
        None => { vcheck!(false, "roundtrip:decodes"); }
    }
    std::mem::forget((r, v, e));
}

/// every proper prefix of encode(e) is rejected (torn entry header or torn payload): CUT = prefix length
pub fn truncation<const N: usize, const M: usize, const CUT: usize>() {
    let ts = vs::u64();
    let (e, _p) = entry::<N>(ts);
    let img: [u8; M] = image(&e);
    let mut pre = [0u8; CUT];
    copy_into(&mut pre, &img);
    let r = WalEntry::decode(&pre);
    vcheck!(r.is_none(), "truncation:prefix rejected");
    std::mem::forget((r, e));
}

/// single-bit flip in field `region` (0 = length byte 0 (bits 0..2), 1 = stamp[4..12], 2 = crc[12..16], 3 = payload)
/// of encode(e): decode is None or returns e unchanged
pub fn bitflip<const N: usize, const M: usize>(region: u8) {
    let ts = vs::u64();
    let (e, p) = entry::<N>(ts);
    let mut img: [u8; M] = image(&e);
    let (lo, hi) = match region { 0 => (0usize, 1usize), 1 => (4, 12), 2 => (12, 16), _ => (16, 16 + N) };
    let pos = vs::usize();
    vs::assume(pos >= lo && pos < hi);
    let bit = vs::u8();
    vs::assume(bit < 8);
    if region == 0 { vs::assume(bit < 2); } // declared length stays <= 3: larger lengths are "truncated" by construction
    img[pos] ^= 1u8 << bit;
    let r = WalEntry::decode(&img);
    if let Some((d, _)) = &r {
        match region {
            1 => { vcheck!(d.timestamp == ts, "bitflip:stamp altered but accepted"); }
            0 => { vcheck!(d.data.len() == N, "bitflip:length altered but accepted"); }
            2 => { vcheck!(false, "bitflip:crc altered but accepted"); }
            _ => { vcheck!(false, "bitflip:payload altered but accepted"); }
        }
    }
    let _ = p;
    std::mem::forget((r, e));
}

pub fn twin() {
    let (e, _p) = entry::<2>(vs::u64());
    let img: [u8; 18] = image(&e);
    let r = WalEntry::decode(&img);
    vcheck!(r.is_none(), "twin:reachable");
    std::mem::forget((r, e));
}
