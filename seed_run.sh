#!/bin/bash
# seed_run.sh <seed dir> <PROP> [tier] [jobs]: run the property's check against a scratch worktree of /repo's HEAD
# with the seeded change applied (VERIF_REPO / VERIF_BUILD: /repo itself and /verif/.build are not touched, so
# several seeds can be tried side by side). Log -> <seed dir>/check-<tier>.log. Worktree and build output are
# removed afterwards. Equivalent to try_seed.sh (apply to /repo, check, undo) but does not disturb /repo.
d=$(realpath $1); prop=$2; tier=${3:-quick}; jobs=${4:-4}
id=$(basename $d)
base=/var/tmp/vseed/$id-$tier
rm -rf $base; mkdir -p $base
git -C /repo worktree prune
git -C /repo worktree add --detach $base/repo HEAD >/dev/null 2>&1 || { echo "worktree failed"; exit 2; }
git -C $base/repo apply $d/patch.diff || { echo "patch does not apply"; git -C /repo worktree remove --force $base/repo; exit 2; }
# private copy of the machinery: edits to /verif while this runs do not reach it
rsync -a --exclude .build --exclude .git --exclude seeded --exclude design-probes /verif/ $base/verif/
cd $base/verif
VERIF_REPO=$base/repo VERIF_BUILD=$base/build ./check $prop --tier $tier --jobs $jobs --no-evidence > $d/check-$tier.log 2>&1; rc=$?
echo "rc=$rc" >> $d/check-$tier.log
# replay files written by the run belong to the seed, not to the tree
git -C /repo worktree remove --force $base/repo
rm -rf $base
grep -E "^(VIOLATION|KNOWN|INCONCLUSIVE|OK|rc=)" $d/check-$tier.log | cut -c1-220
