#!/usr/bin/env python3
"""Regenerates MANIFEST.json from the table below (kept as code so that it is always valid JSON)."""
import json, subprocess, os
ROOT = os.path.dirname(os.path.abspath(__file__))

CLAIMED = {
    # id: (level text, level note, design ref)
}
NA = {}

def load():
    import importlib.util
    spec = importlib.util.spec_from_file_location("claims", os.path.join(ROOT, "claims.py"))
    m = importlib.util.module_from_spec(spec); spec.loader.exec_module(m)
    return m

def main():
    m = load()
    hooks = subprocess.run(["git", "-C", "/repo", "log", "--format=%H %s", "--grep=^verif hooks"], capture_output=True, text=True).stdout.strip().splitlines()
    checks = []
    for pid, c in sorted(m.CLAIMED.items()):
        checks.append({
            "property_id": pid,
            "quick_cmd": "./check %s --tier quick" % pid,
            "thorough_cmd": "./check %s --tier thorough" % pid,
            "evidence_file": "/verif/evidence/%s.json" % pid,
            "replay_cmd_template": "./check %s --replay {path}" % pid,
            "engine": "kani",
            "level_claimed": {"category": "model_checking", "text": c["text"], "design_ref": c.get("ref", "DESIGN.md section 3 / " + pid)},
            "level_note": c["note"],
            "technique": c.get("technique", "bounded symbolic execution of the real Rust code with Kani (CBMC + SAT); counterexamples replayed natively"),
        })
    man = {
        "version": 1,
        "setup_cmd": "./setup.sh",
        "hooks": {
            "guard": "cargo feature `verif-hooks` (off by default; `cfg(kani)` is not used as a guard)",
            "enable": "harness crates depend on redis-sim with features=[\"verif-hooks\"] (/verif/kani on the staged copy, /verif/replay on /repo itself)",
            "baseline_off_cmd": "/verif/run_baseline.sh",
            "source_commits": [h.split()[0] for h in hooks],
            "add_only": True,
        },
        "engines": [{"name": "kani", "path": "/verif/check", "serves_properties": sorted(m.CLAIMED), "kind_free_text": "Kani 0.68 (CBMC 6.11 + CaDiCaL) proof harnesses over a staged copy of /repo regenerated on every run; native replay crate against /repo for counterexamples"}],
        "checks": checks,
        "notes": m.NOTES,
        "not_applicable": [{"property_id": k, "reason": v} for k, v in sorted(m.NA.items())],
    }
    with open(os.path.join(ROOT, "MANIFEST.json"), "w") as f:
        json.dump(man, f, indent=1)
    print("claimed", sorted(m.CLAIMED), "n/a", sorted(m.NA))

main()
