#!/bin/bash
# seed_all.sh [tier] : run every stored seeded change against the check of its property (scratch worktrees, 3 lanes)
tier=${1:-quick}
cd /verif
seeds=$(ls -d seeded/S-* | sort)
lane() { for d in "$@"; do p=$(python3 -c "import json;print(json.load(open('$d/meta.json'))['property'])"); ./seed_run.sh $d $p $tier 4 > /var/tmp/seedall-$(basename $d)-$tier.out 2>&1; done; }
a=(); b=(); c=(); i=0
for d in $seeds; do case $((i%3)) in 0) a+=($d);; 1) b+=($d);; 2) c+=($d);; esac; i=$((i+1)); done
lane "${a[@]}" & lane "${b[@]}" & lane "${c[@]}" & wait
echo seed-all-done
