#!/bin/bash
# dev helper: ./dev.sh <harness> [full] [playback]  — one harness, own target dir, log in .build/dev/<harness>.log
h=$1; shift
cd /verif && mkdir -p .build/dev
python3 - "$h" <<'P'
import sys, importlib.machinery, importlib.util, os
loader = importlib.machinery.SourceFileLoader("chk", "/verif/check")
spec = importlib.util.spec_from_loader("chk", loader); m = importlib.util.module_from_spec(spec); loader.exec_module(m)
st = m.stage()
m.ensure_lock()
ok, secs, out = m.build_base("scenarios::" + sys.argv[1])
print("base build ok=%s %.0fs" % (ok, secs))
m.clone_target("/verif/.build/dev/t-" + sys.argv[1], m.base_of(sys.argv[1]))
P
flags="--no-memory-safety-checks --no-undefined-function-checks"
pb=""
feat=""; case "$h" in *_c2) feat="--features cap2";; *_c1) feat="--features cap1";; esac
for a in "$@"; do
  [ "$a" = full ] && flags=""
  [ "$a" = playback ] && pb="-Z concrete-playback --concrete-playback=print"
done
cd kani && ( ulimit -v $((20*1024*1024)); CARGO_NET_OFFLINE=true /usr/bin/time -v timeout ${CAP:-1500} cargo kani -Z stubbing -Z unstable-options --no-assertion-reach-checks $feat $flags $pb --harness scenarios::$h --exact --target-dir /verif/.build/dev/t-$h ${CBMC_ARGS:+--cbmc-args $CBMC_ARGS} > /verif/.build/dev/$h.log 2>&1 )
rm -rf /verif/.build/dev/t-$h
grep -E "^VERIFICATION|Verification Time|Failed Checks|\*\* |Maximum resident|Elapsed \(wall|^error" /verif/.build/dev/$h.log | head -20
