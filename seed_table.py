#!/usr/bin/env python3
"""Print the markdown table of seeded changes from seeded/*/meta.json + check logs."""
import json, glob, os, re
rows = []
for d in sorted(glob.glob('/verif/seeded/S-*')):
    m = json.load(open(os.path.join(d, 'meta.json')))
    det = []
    for log in sorted(glob.glob(os.path.join(d, 'check-*.log'))):
        tier = re.search(r'check-(\w+)\.log', log).group(1)
        t = open(log).read()
        v = re.findall(r'^VIOLATION property=\S+ replay=\S*/(\S+?)\.json', t, re.M)
        rc = re.search(r'^rc=(\d+)', t, re.M)
        inc = re.findall(r'^INCONCLUSIVE: property=\S+ (\w+): (\w+)', t, re.M)
        nohar = 'no harnesses registered' in t
        det.append((tier, rc.group(1) if rc else '?', v, inc, nohar))
    m['det'] = det
    rows.append(m)
print('| seed | property | change | needs to manifest | detected by |')
print('|---|---|---|---|---|')
n_det = 0
for m in rows:
    parts = []
    for tier, rc, v, inc, nohar in m['det']:
        if v:
            parts.append('**%s: VIOLATION** (%s)' % (tier, '; '.join(sorted(set(x.split('-', 1)[1] for x in v))[:2])))
        elif rc == '0':
            parts.append('%s: not detected (exit 0)' % tier)
        elif nohar:
            parts.append('property not claimed (no check)')
        else:
            parts.append('%s: not decided (exit %s: %s)' % (tier, rc, ', '.join(sorted(set('%s %s' % (h, w.lower()) for h, w in inc))[:2]) or 'inconclusive'))
    if any('VIOLATION' in x for x in parts):
        n_det += 1
    if m.get('superseded'):
        parts.append('superseded: ' + m['superseded'].split(':')[0])
    dd = '<br>'.join(parts) if parts else m.get('detection', 'pending')
    print('| %s | %s | %s | %s | %s |' % (m['id'], m['property'], m['change'], m['needs_to_manifest'], dd))
print()
print('Detected: %d of %d.' % (n_det, len(rows)))
