#!/usr/bin/env python3
"""Print the markdown table of seeded changes from seeded/*/meta.json + check logs."""
import json, glob, os, re
rows = []
for d in sorted(glob.glob('/verif/seeded/S-*')):
    m = json.load(open(os.path.join(d, 'meta.json')))
    det = []
    for log in sorted(glob.glob(os.path.join(d, 'check-*.log'))):
        tier = re.search(r'check-(\w+)\.log', log).group(1)
        t = open(log).read()
        v = re.findall(r'^VIOLATION property=\S+ replay=\S*/(\S+?)\.json', t, re.M)
        rc = re.search(r'^rc=(\d+)', t, re.M)
        inc = len(re.findall(r'^INCONCLUSIVE', t, re.M))
        det.append((tier, rc.group(1) if rc else '?', v, inc))
    m['det'] = det
    rows.append(m)
print('| seed | property | change | needs to manifest | detected by |')
print('|---|---|---|---|---|')
for m in rows:
    if m['det']:
        parts = []
        for tier, rc, v, inc in m['det']:
            if v:
                parts.append('**%s: VIOLATION** (%s)' % (tier, '; '.join(sorted(set(x.split('-', 1)[1] for x in v))[:3])))
            elif rc == '0':
                parts.append('%s: not detected (exit 0)' % tier)
            else:
                parts.append('%s: exit %s, %d inconclusive' % (tier, rc, inc))
        dd = '<br>'.join(parts)
    else:
        dd = m.get('detection', 'pending')
    print('| %s | %s | %s | %s | %s |' % (m['id'], m['property'], m['change'], m['needs_to_manifest'], dd))
