pub fn pl_lock_slow(_m: &parking_lot::RawMutex, _t: Option<std::time::Instant>) -> bool { true }
pub fn pl_unlock_slow(_m: &parking_lot::RawMutex, _f: bool) {}
#[kani::proof]
#[kani::stub(parking_lot::raw_mutex::RawMutex::lock_slow, pl_lock_slow)]
#[kani::stub(parking_lot::raw_mutex::RawMutex::unlock_slow, pl_unlock_slow)]
fn p_plmutex() { let m = parking_lot::Mutex::new(1u8); let g = m.lock(); assert!(*g == 1); }
