use redis_sim::replication::{GossipRouter, HashRing, ReplicationConfig};
use redis_sim::replication::lattice::ReplicaId;
use std::sync::{Arc, RwLock};

/// C19: from_config must never assign the node's own id to a peer (3-node cluster, ids 1..=3)
#[kani::proof]
#[kani::unwind(6)]
#[kani::stub(alloc::fmt::format, crate::probe2::stub_format)]
fn router_from_config_ids() {
    let me: u64 = kani::any(); kani::assume(me >= 1 && me <= 3);
    let mut cfg = ReplicationConfig::default();
    cfg.replica_id = me;
    cfg.peers = vec!["a".to_string(), "b".to_string()];
    let ring = Arc::new(RwLock::new(HashRing::new(vec![], 1, 1)));
    let r = GossipRouter::from_config(&cfg, ring);
    let self_is_peer = r.get_peer_address(ReplicaId(me)).is_some();
    let mut others = 0; let mut i = 1u64; while i <= 3 { if i != me && r.get_peer_address(ReplicaId(i)).is_some() { others += 1; } i += 1; }
    std::mem::forget(r); std::mem::forget(cfg);
    assert!(!self_is_peer && others == 2);
}
