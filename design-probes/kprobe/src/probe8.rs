use redis_sim::redis::{Command, RespValue, RespValueZeroCopy};
use bytes::Bytes;

fn arg(n: usize) -> Vec<u8> {
    let b: [u8; 2] = kani::any();
    let len: usize = kani::any(); kani::assume(len <= 2);
    let _ = n;
    b[..len].to_vec()
}

/// SET key value [opt] [optarg]: both parsers agree on Ok/Err, error text and the numeric/boolean fields
#[kani::proof]
#[kani::unwind(8)]
#[kani::stub(alloc::fmt::format, crate::probe2::stub_format)]
fn parsers_agree_set() {
    let nargs: usize = kani::any(); kani::assume(nargs <= 4);
    let mut a: Vec<RespValue> = Vec::new(); let mut z: Vec<RespValueZeroCopy> = Vec::new();
    a.push(RespValue::BulkString(Some(b"SET".to_vec()))); z.push(RespValueZeroCopy::BulkString(Some(Bytes::from_static(b"SET"))));
    let mut i = 0;
    while i < nargs { let v = arg(i); z.push(RespValueZeroCopy::BulkString(Some(Bytes::copy_from_slice(&v)))); a.push(RespValue::BulkString(Some(v))); i += 1; }
    let r1 = Command::from_resp(&RespValue::Array(Some(a)));
    let r2 = Command::from_resp_zero_copy(&RespValueZeroCopy::Array(Some(z)));
    match (r1, r2) {
        (Ok(Command::Set { key: k1, ex: e1, px: p1, nx: n1, xx: x1, get: g1, keepttl: kt1, .. }), Ok(Command::Set { key: k2, ex: e2, px: p2, nx: n2, xx: x2, get: g2, keepttl: kt2, .. })) => {
            assert!(k1 == k2 && e1 == e2 && p1 == p2 && n1 == n2 && x1 == x2 && g1 == g2 && kt1 == kt2);
        }
        (Err(m1), Err(m2)) => assert!(m1 == m2),
        _ => assert!(false),
    }
}
