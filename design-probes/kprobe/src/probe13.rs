use redis_sim::replication::lattice::*;
use redis_sim::replication::state::*;
use redis_sim::redis::SDS;
use verif_collections::HashMap;
use crate::h::{stub_interest, stub_is_enabled, stub_dispatch};

fn any_clock() -> LamportClock { let t: u64 = kani::any(); let r: u64 = kani::any(); kani::assume(r < 3); LamportClock { time: t, replica_id: ReplicaId(r) } }
fn sds1() -> SDS { let b: u8 = kani::any(); let mut data = [0u8; 23]; data[0] = b; SDS::Inline { len: 1, data } }
fn any_lww() -> LwwRegister<SDS> { let tomb: bool = kani::any(); LwwRegister { value: if tomb { None } else { Some(sds1()) }, timestamp: any_clock(), tombstone: tomb } }
fn rv_lww() -> ReplicatedValue { ReplicatedValue { crdt: CrdtValue::Lww(any_lww()), vector_clock: None, expiry_ms: None, timestamp: any_clock(), replication_factor: None } }
fn rv_hash1() -> ReplicatedValue {
    let mut h: HashMap<String, LwwRegister<SDS>> = HashMap::new();
    h.insert("f".to_string(), any_lww());
    ReplicatedValue { crdt: CrdtValue::Hash(h), vector_clock: None, expiry_ms: None, timestamp: any_clock(), replication_factor: None }
}
fn f_obs(v: &ReplicatedValue) -> (bool, bool, u8) {
    match v.get_hash() { Some(h) => match h.get("f") { Some(l) => match l.get() { Some(s) => (true, true, s.as_bytes()[0]), None => (true, false, 0) }, None => (false, false, 0) }, None => (false, false, 0) }
}
fn obs_eq(a: &ReplicatedValue, b: &ReplicatedValue) -> bool {
    a.get().map(|s| s.as_bytes()[0]) == b.get().map(|s| s.as_bytes()[0]) && a.is_tombstone() == b.is_tombstone() && a.is_hash() == b.is_hash() && f_obs(a) == f_obs(b)
}

/// associativity on the concrete kind triple (Hash, Lww, Hash) — expects the type-mismatch counterexample
#[kani::proof]
#[kani::unwind(6)]
#[kani::stub(tracing_core::callsite::DefaultCallsite::interest, stub_interest)]
#[kani::stub(tracing::__macro_support::__is_enabled, stub_is_enabled)]
#[kani::stub(tracing_core::event::Event::dispatch, stub_dispatch)]
fn assoc_hash_lww_hash() {
    let a = rv_hash1(); let b = rv_lww(); let c = rv_hash1();
    let l = a.merge(&b).merge(&c);
    let r = a.merge(&b.merge(&c));
    let ok = obs_eq(&l, &r);
    std::mem::forget(a); std::mem::forget(b); std::mem::forget(c); std::mem::forget(l); std::mem::forget(r);
    assert!(ok);
}

/// commutativity of hash-field contents on (Hash, Hash)
#[kani::proof]
#[kani::unwind(6)]
#[kani::stub(tracing_core::callsite::DefaultCallsite::interest, stub_interest)]
#[kani::stub(tracing::__macro_support::__is_enabled, stub_is_enabled)]
#[kani::stub(tracing_core::event::Event::dispatch, stub_dispatch)]
fn comm_hash_hash_fields() {
    let a = rv_hash1(); let b = rv_hash1();
    // reachability invariant: equal stamps carry equal registers
    let l = a.merge(&b); let r = b.merge(&a);
    let (la, lb) = (a.get_hash().unwrap().get("f").unwrap().clone(), b.get_hash().unwrap().get("f").unwrap().clone());
    kani::assume(la.timestamp != lb.timestamp);
    let ok = f_obs(&l) == f_obs(&r);
    std::mem::forget(a); std::mem::forget(b); std::mem::forget(l); std::mem::forget(r); std::mem::forget(la); std::mem::forget(lb);
    assert!(ok);
}
