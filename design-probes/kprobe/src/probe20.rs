use redis_sim::replication::lattice::*;
use redis_sim::replication::state::*;
use redis_sim::replication::ConsistencyLevel;
use redis_sim::redis::{SDS, Command, CommandExecutor, RespValue};
use redis_sim::production::ReplicatedShardActor;
use crate::h::{stub_interest, stub_is_enabled, stub_dispatch};

pub fn mini(ex: &mut CommandExecutor, cmd: &Command) -> RespValue { ex.verif_mini_dispatch(cmd) }

fn sds(b: u8) -> SDS { let mut d = [0u8; 23]; d[0] = b; SDS::Inline { len: 1, data: d } }

/// C06 kernel: node A holds k="o"; a SET k "n" NX is a no-op on the executor — what A serves must equal what its replication state says
#[kani::proof]
#[kani::unwind(6)]
#[kani::stub(redis_sim::redis::CommandExecutor::execute, mini)]
#[kani::stub(alloc::fmt::format, crate::probe2::stub_format)]
#[kani::stub(tracing_core::callsite::DefaultCallsite::interest, stub_interest)]
#[kani::stub(tracing::__macro_support::__is_enabled, stub_is_enabled)]
#[kani::stub(tracing_core::event::Event::dispatch, stub_dispatch)]
fn glue_nx_mini() {
    let mut a = ReplicatedShardActor::verif_new(ReplicaId(1), ConsistencyLevel::Eventual);
    let (_r0, d0) = a.verif_exec(&Command::set("k".to_string(), sds(b'o')));
    let nx: bool = kani::any();
    let c = Command::Set { key: "k".to_string(), value: sds(b'n'), ex: None, px: None, exat: None, pxat: None, nx, xx: false, get: false, keepttl: false };
    let (_r1, d1) = a.verif_exec(&c);
    let served = a.verif_read(&Command::Get("k".to_string()));
    let st = a.verif_state().get_replicated("k").and_then(|v| v.get()).map(|s| s.as_bytes()[0]);
    let ok = match &served { RespValue::BulkString(Some(b)) => Some(b[0]) == st, _ => st.is_none() };
    std::mem::forget(d0); std::mem::forget(d1); std::mem::forget(served); std::mem::forget(a); std::mem::forget(c);
    assert!(ok);
}
