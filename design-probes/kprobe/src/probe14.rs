use redis_sim::replication::lattice::*;
use redis_sim::replication::state::*;
use redis_sim::replication::ConsistencyLevel;
use redis_sim::replication::anti_entropy::{KeyDigest, MerkleNode};
use redis_sim::replication::{HashRing};
use redis_sim::redis::{SDS, Command, RespValue};
use redis_sim::production::ReplicatedShardActor;
use crate::h::{stub_interest, stub_is_enabled, stub_dispatch};
use crate::probe4::{hw, hf};

/// C18 kernel: bucket hash must not depend on the order in which digests are folded
#[kani::proof]
#[kani::unwind(10)]
#[kani::stub(<std::hash::DefaultHasher as std::hash::Hasher>::write, hw)]
#[kani::stub(<std::hash::DefaultHasher as std::hash::Hasher>::finish, hf)]
fn merkle_order() {
    let a = KeyDigest { key_hash: kani::any(), value_hash: kani::any(), timestamp: kani::any() };
    let b = KeyDigest { key_hash: kani::any(), value_hash: kani::any(), timestamp: kani::any() };
    let x = MerkleNode::from_digests(&[a, b]);
    let y = MerkleNode::from_digests(&[b, a]);
    assert!(x == y);
}

/// C06 kernel: A executes SET k v, delta applied at B (which holds an arbitrary older/newer LWW value): both serve the same GET
#[kani::proof]
#[kani::unwind(6)]
#[kani::stub(alloc::fmt::format, crate::probe2::stub_format)]
#[kani::stub(tracing_core::callsite::DefaultCallsite::interest, stub_interest)]
#[kani::stub(tracing::__macro_support::__is_enabled, stub_is_enabled)]
#[kani::stub(tracing_core::event::Event::dispatch, stub_dispatch)]
fn glue_set_nx_existing() {
    let mut a = ReplicatedShardActor::verif_new(ReplicaId(1), ConsistencyLevel::Eventual);
    // key exists at A with value "o"
    let (_r0, d0) = a.verif_exec(&Command::set("k".to_string(), SDS::from_str("o")));
    // SET k n NX on an existing key: must be a no-op and must not produce a delta carrying "n"
    let nx = Command::Set { key: "k".to_string(), value: SDS::from_str("n"), ex: None, px: None, exat: None, pxat: None, nx: true, xx: false, get: false, keepttl: false };
    let (_r1, d1) = a.verif_exec(&nx);
    let served = a.verif_read(&Command::Get("k".to_string()));
    let st = a.verif_state().get_replicated("k").and_then(|v| v.get()).map(|s| s.as_bytes()[0]);
    let ok = match &served { RespValue::BulkString(Some(b)) => Some(b[0]) == st, _ => st.is_none() };
    std::mem::forget(d0); std::mem::forget(d1); std::mem::forget(served); std::mem::forget(a);
    assert!(ok); // what the node serves == what its replication state says
}
