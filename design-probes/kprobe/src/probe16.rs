use redis_sim::replication::lattice::ReplicaId;
use redis_sim::replication::HashRing;

static mut VN: [[u64; 2]; 4] = [[0; 2]; 4];
static mut KP: u64 = 0;
pub fn tbl_vnode(node: ReplicaId, idx: u32) -> u64 { unsafe { VN[(node.0 as usize) & 3][(idx as usize) & 1] } }
pub fn tbl_key(_k: &str) -> u64 { unsafe { KP } }

/// placement is a function of the membership set: two join orders of {1,2,3} give the same replica list
#[kani::proof]
#[kani::unwind(8)]
#[kani::stub(redis_sim::replication::hash_ring::HashRing::hash_virtual_node, tbl_vnode)]
#[kani::stub(redis_sim::replication::hash_ring::HashRing::hash_key, tbl_key)]
fn ring_join_order() {
    unsafe {
        VN = kani::any(); KP = kani::any();
        // distinct positions for the 6 virtual nodes in use
        let p = [VN[1][0], VN[1][1], VN[2][0], VN[2][1], VN[3][0], VN[3][1]];
        let mut i = 0; while i < 6 { let mut j = i + 1; while j < 6 { kani::assume(p[i] != p[j]); j += 1; } i += 1; }
    }
    let rf: usize = kani::any(); kani::assume(rf >= 1 && rf <= 3);
    let r1 = HashRing::new(vec![ReplicaId(1), ReplicaId(2), ReplicaId(3)], 2, rf);
    let r2 = HashRing::new(vec![ReplicaId(3), ReplicaId(1), ReplicaId(2)], 2, rf);
    let a = r1.get_replicas("k"); let b = r2.get_replicas("k");
    let ok = a == b && a.len() == rf && (a.len() < 2 || a[0] != a[1]) && (a.len() < 3 || (a[0] != a[2] && a[1] != a[2]));
    std::mem::forget(r1); std::mem::forget(r2); std::mem::forget(a); std::mem::forget(b);
    assert!(ok);
}

/// smaller ring: members {1,2}, 2 virtual nodes each (4 ring entries), rf in 1..=2
#[kani::proof]
#[kani::unwind(6)]
#[kani::stub(redis_sim::replication::hash_ring::HashRing::hash_virtual_node, tbl_vnode)]
#[kani::stub(redis_sim::replication::hash_ring::HashRing::hash_key, tbl_key)]
fn ring_join_order_small() {
    unsafe {
        VN = kani::any(); KP = kani::any();
        let p = [VN[1][0], VN[1][1], VN[2][0], VN[2][1]];
        let mut i = 0; while i < 4 { let mut j = i + 1; while j < 4 { kani::assume(p[i] != p[j]); j += 1; } i += 1; }
    }
    let rf: usize = kani::any(); kani::assume(rf >= 1 && rf <= 2);
    let r1 = HashRing::new(vec![ReplicaId(1), ReplicaId(2)], 2, rf);
    let r2 = HashRing::new(vec![ReplicaId(2), ReplicaId(1)], 2, rf);
    let a = r1.get_replicas("k"); let b = r2.get_replicas("k");
    let ok = a == b && a.len() == rf && (a.len() < 2 || a[0] != a[1]);
    std::mem::forget(r1); std::mem::forget(r2); std::mem::forget(a); std::mem::forget(b);
    assert!(ok);
}
