use redis_sim::streaming::{WalEntry, WalRotator, WalStore, WalFileWriter, WalFileReader, WalError};
use redis_sim::redis::{RespCodec, RespParser};
use std::sync::Arc;
use std::cell::RefCell;

// ---------- model WAL store: 3 files max, tracks len / synced_len, nondet faults -------------
#[derive(Clone, Copy)]
pub struct FileSt { pub exists: bool, pub len: usize, pub synced: usize }
pub struct Shared { pub files: [FileSt; 3], pub nfiles: usize }
static mut SH: Shared = Shared { files: [FileSt{exists:false,len:0,synced:0};3], nfiles: 0 };

#[derive(Clone)]
pub struct MStore;
pub struct MWriter { idx: usize }
pub struct MReader;
impl WalFileWriter for MWriter {
    fn append(&mut self, data: &[u8]) -> Result<u64, WalError> {
        let fail: bool = kani::any();
        unsafe {
            if fail {
                // partial write: some prefix may land
                let part: usize = kani::any();
                kani::assume(part <= data.len());
                SH.files[self.idx].len += part;
                return Err(WalError::DiskFull);
            }
            SH.files[self.idx].len += data.len();
            Ok(SH.files[self.idx].len as u64)
        }
    }
    fn sync(&mut self) -> Result<(), WalError> {
        let fail: bool = kani::any();
        if fail { return Err(WalError::DiskFull); }
        unsafe { SH.files[self.idx].synced = SH.files[self.idx].len; }
        Ok(())
    }
    fn size(&self) -> u64 { unsafe { SH.files[self.idx].len as u64 } }
}
impl WalFileReader for MReader { fn read_all(&mut self) -> Result<Vec<u8>, WalError> { Ok(Vec::new()) } }
impl WalStore for MStore {
    type Writer = MWriter; type Reader = MReader;
    fn create(&self, _name: &str) -> Result<MWriter, WalError> {
        unsafe {
            kani::assume(SH.nfiles < 3);
            let i = SH.nfiles; SH.nfiles += 1;
            SH.files[i] = FileSt { exists: true, len: 0, synced: 0 };
            Ok(MWriter { idx: i })
        }
    }
    fn open_read(&self, _n: &str) -> Result<MReader, WalError> { Ok(MReader) }
    fn list(&self) -> Result<Vec<String>, WalError> { Ok(Vec::new()) }
    fn delete(&self, _n: &str) -> Result<(), WalError> { Ok(()) }
    fn exists(&self, _n: &str) -> Result<bool, WalError> { Ok(false) }
}

pub fn no_spec(_i: u32, _a: u64) -> Option<crc32fast::Hasher> { None }
/// (index of newest file, its length) right now
pub fn snapshot() -> (usize, usize) { unsafe { if SH.nfiles == 0 { (0, 0) } else { (SH.nfiles - 1, SH.files[SH.nfiles - 1].len) } } }
pub fn durable(file: usize, end: usize) -> bool { unsafe { SH.files[file].synced >= end } }
pub fn stub_format(_a: std::fmt::Arguments<'_>) -> String { String::new() }
fn entry(ts: u64) -> WalEntry {
    let data = vec![1u8, 2, 3, 4];
    let checksum = 0; // validate() only in debug_assert; set real value below
    WalEntry { data, timestamp: ts, checksum }
}

/// k appends with arbitrary rotation threshold and faults, one sync at the end:
/// every append that returned Ok before a successful sync must lie inside the synced prefix of its file.
#[kani::proof]
#[kani::unwind(6)]
#[kani::stub(alloc::fmt::format, stub_format)]
#[kani::stub(core::arch::x86_64::__cpuid_count, crate::probe9::fake_cpuid)]
#[kani::stub(tracing_core::callsite::DefaultCallsite::interest, crate::h::stub_interest)]
#[kani::stub(tracing::__macro_support::__is_enabled, crate::h::stub_is_enabled)]
#[kani::stub(tracing_core::event::Event::dispatch, crate::h::stub_dispatch)]
fn wal_group_commit_2() {
    let max: usize = kani::any();
    kani::assume(max > 16 && max < 200);
    let mut rot = WalRotator::new(MStore, max).unwrap();
    let mut ok = [false; 2];
    let mut file_of = [0usize; 2];
    let mut end_of = [0usize; 2];
    let mut i = 0;
    while i < 2 {
        let mut e = entry(i as u64 + 1);
        e.checksum = 0xB63CFBCD; // crc32 of [1,2,3,4]
        let r = rot.append(&e);
        if r.is_ok() {
            ok[i] = true;
            unsafe { file_of[i] = SH.nfiles - 1; end_of[i] = SH.files[file_of[i]].len; }
        }
        i += 1;
    }
    let s = rot.sync();
    if s.is_ok() {
        let mut j = 0;
        while j < 2 {
            if ok[j] { unsafe { assert!(SH.files[file_of[j]].synced >= end_of[j]); } }
            j += 1;
        }
    }
}

#[kani::proof]
#[kani::unwind(8)]
#[kani::stub(alloc::fmt::format, stub_format)]
fn resp_codec_total_6() {
    let bytes: [u8; 6] = kani::any();
    let len: usize = kani::any();
    kani::assume(len <= 6);
    let mut buf = bytes::BytesMut::with_capacity(8);
    buf.extend_from_slice(&bytes[..len]);
    let _ = RespCodec::parse(&mut buf);
}

#[kani::proof]
#[kani::unwind(8)]
#[kani::stub(alloc::fmt::format, stub_format)]
fn resp_parser_total_6() {
    let bytes: [u8; 6] = kani::any();
    let len: usize = kani::any();
    kani::assume(len <= 6);
    let _ = RespParser::parse(&bytes[..len]);
}

#[kani::proof]
#[kani::unwind(20)]
#[kani::stub(crc32fast::Hasher::internal_new_specialized, no_spec)]
fn wal_decode_18() {
    let bytes: [u8; 18] = kani::any();
    let r = WalEntry::decode(&bytes);
    if let Some((e, used)) = r {
        assert!(used <= 18);
        assert!(e.data.len() + 16 == used);
    }
}
