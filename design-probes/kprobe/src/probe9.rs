use redis_sim::redis::{RespCodec, RespParser};
pub fn fake_cpuid(_leaf: u32, _sub: u32) -> core::arch::x86_64::CpuidResult { core::arch::x86_64::CpuidResult { eax: 0, ebx: 0, ecx: 0, edx: 0 } }
pub fn naive_memchr(n: u8, h: &[u8]) -> Option<usize> { let mut i = 0; while i < h.len() { if h[i] == n { return Some(i); } i += 1; } None }

#[kani::proof]
#[kani::unwind(9)]
#[kani::stub(alloc::fmt::format, crate::probe2::stub_format)]
#[kani::stub(memchr::memchr::memchr, naive_memchr)]
#[kani::stub(core::arch::x86_64::__cpuid_count, fake_cpuid)]
fn resp_codec_total_6b() {
    let bytes: [u8; 6] = kani::any();
    let len: usize = kani::any();
    kani::assume(len <= 6);
    let mut buf = bytes::BytesMut::with_capacity(8);
    buf.extend_from_slice(&bytes[..len]);
    let r = RespCodec::parse(&mut buf);
    std::mem::forget(r); std::mem::forget(buf);
}
