use redis_sim::redis::{SDS, CommandExecutor, RespValue};
use crate::h::{stub_interest, stub_is_enabled, stub_dispatch};

/// C01 executor kernel without the dispatch match: SET k v PX px at time `now`, then GET at `now+dt`
#[kani::proof]
#[kani::unwind(5)]
#[kani::stub(alloc::fmt::format, crate::probe2::stub_format)]
#[kani::stub(tracing_core::callsite::DefaultCallsite::interest, stub_interest)]
#[kani::stub(tracing::__macro_support::__is_enabled, stub_is_enabled)]
#[kani::stub(tracing_core::event::Event::dispatch, stub_dispatch)]
fn ops_set_px_get() {
    let mut ex = CommandExecutor::verif_new_bare();
    let now: u64 = kani::any(); kani::assume(now < (1u64 << 40));
    ex.update_time_readonly(redis_sim::simulator::VirtualTime::from_millis(now));
    let px: i64 = kani::any();
    let mut d = [0u8; 23]; d[0] = b'v';
    let r = ex.verif_set_px("k", &SDS::Inline { len: 1, data: d }, px);
    let is_err = matches!(r, RespValue::Error(_));
    let mut ok = true;
    if px <= 0 { ok = is_err; }
    if !is_err {
        let dt: u64 = kani::any(); kani::assume(dt < (1u64 << 40));
        ex.update_time_readonly(redis_sim::simulator::VirtualTime::from_millis(now + dt));
        let g = ex.verif_get("k");
        let visible = matches!(g, RespValue::BulkString(Some(_)));
        ok = ok && (visible == ((dt as i128) < (px as i128)));
        std::mem::forget(g);
    }
    std::mem::forget(r); std::mem::forget(ex);
    assert!(ok);
}
