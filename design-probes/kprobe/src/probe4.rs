use redis_sim::replication::lattice::*;
use redis_sim::replication::state::*;
use redis_sim::replication::ConsistencyLevel;
use redis_sim::redis::{SDS, Command, RespValue};
use redis_sim::production::{verif_hash_key, verif_hash_key_bytes, ReplicatedShardActor};
use redis_sim::streaming::wal_actor::WalActor;
use redis_sim::streaming::{WalRotator, WalMessage, WalConfig, FsyncPolicy, WalError};
use crate::h::{stub_interest, stub_is_enabled, stub_dispatch};
use crate::probe2::{MStore, no_spec};
use std::hash::{DefaultHasher, Hasher};
use std::sync::Arc;

// transparent hasher model: polynomial accumulator over the byte stream fed to the hasher
static mut ACC: u64 = 7;
pub fn hw(_h: &mut DefaultHasher, bytes: &[u8]) { unsafe { let mut i = 0; while i < bytes.len() { ACC = ACC.wrapping_mul(1099511628211).wrapping_add(bytes[i] as u64 + 1); i += 1; } } }
pub fn hf(_h: &DefaultHasher) -> u64 { unsafe { let v = ACC; ACC = 7; v } }

#[kani::proof]
#[kani::unwind(12)]
#[kani::stub(<std::hash::DefaultHasher as std::hash::Hasher>::write, hw)]
#[kani::stub(<std::hash::DefaultHasher as std::hash::Hasher>::finish, hf)]
fn route_agree() {
    let b: [u8; 3] = kani::any();
    let len: usize = kani::any(); kani::assume(len <= 3);
    let n: usize = kani::any(); kani::assume(n >= 1 && n <= 64);
    let bytes = &b[..len];
    if let Ok(s) = std::str::from_utf8(bytes) {
        assert!(verif_hash_key(s, n) == verif_hash_key_bytes(bytes, n));
    }
}

pub fn stub_from_delta(_d: &ReplicationDelta, timestamp: u64) -> Result<redis_sim::streaming::WalEntry, WalError> { Ok(redis_sim::streaming::WalEntry { data: vec![1u8, 2, 3, 4], timestamp, checksum: 0xB63CFBCD }) }
fn mk_delta(ts: u64) -> Arc<ReplicationDelta> {
    let c = LamportClock { time: ts, replica_id: ReplicaId(1) };
    Arc::new(ReplicationDelta::new("k".to_string(), ReplicatedValue::with_value(SDS::from_str("v"), c), ReplicaId(1)))
}

/// WalActor group commit: 2 writes, symbolic rotation threshold, symbolic faults, then flush.
#[kani::proof]
#[kani::unwind(12)]
#[kani::stub(alloc::fmt::format, crate::probe2::stub_format)]
#[kani::stub(core::arch::x86_64::__cpuid_count, crate::probe9::fake_cpuid)]
#[kani::stub(redis_sim::streaming::WalEntry::from_delta, stub_from_delta)]
#[kani::stub(parking_lot::raw_mutex::RawMutex::lock_slow, crate::probe6::pl_lock_slow)]
#[kani::stub(parking_lot::raw_mutex::RawMutex::unlock_slow, crate::probe6::pl_unlock_slow)]
#[kani::stub(tracing_core::callsite::DefaultCallsite::interest, stub_interest)]
#[kani::stub(tracing::__macro_support::__is_enabled, stub_is_enabled)]
#[kani::stub(tracing_core::event::Event::dispatch, stub_dispatch)]
fn wal_actor_gc2() {
    let max: usize = kani::any(); kani::assume(max > 16 && max < 400);
    let rot = WalRotator::new(MStore, max).unwrap();
    let cfg = WalConfig { enabled: true, wal_dir: std::path::PathBuf::new(), fsync_policy: FsyncPolicy::Always, max_file_size: max,
        group_commit_max_entries: 8, group_commit_max_wait: std::time::Duration::from_micros(50), truncation_check_interval: std::time::Duration::from_millis(100) };
    let mut actor = WalActor::verif_new_nomailbox(rot, cfg);
    let (a1, mut r1) = tokio::sync::oneshot::channel::<Result<(), WalError>>();
    let (a2, mut r2) = tokio::sync::oneshot::channel::<Result<(), WalError>>();
    let before1 = crate::probe2::snapshot();
    actor.verif_handle(WalMessage::Write { delta: mk_delta(1), timestamp: 1, ack_tx: Some(a1) });
    let after1 = crate::probe2::snapshot();
    actor.verif_handle(WalMessage::Write { delta: mk_delta(2), timestamp: 2, ack_tx: Some(a2) });
    let after2 = crate::probe2::snapshot();
    actor.verif_flush();
    // entry 1 occupies (file f1, end e1) if it was appended
    let ok1 = matches!(r1.try_recv(), Ok(Ok(())));
    let ok2 = matches!(r2.try_recv(), Ok(Ok(())));
    if ok1 { assert!(crate::probe2::durable(after1.0, after1.1)); }
    if ok2 { assert!(crate::probe2::durable(after2.0, after2.1)); }
    kani::cover!(ok1 && ok2 && after1.0 != after2.0, "batch straddles a rotation");
    std::mem::forget(actor);
}

/// C08 inductive step: arbitrary shard state under invariant I, recovered checkpoint entry, then local write.
#[kani::proof]
#[kani::unwind(6)]
#[kani::stub(tracing_core::callsite::DefaultCallsite::interest, stub_interest)]
#[kani::stub(tracing::__macro_support::__is_enabled, stub_is_enabled)]
#[kani::stub(tracing_core::event::Event::dispatch, stub_dispatch)]
fn stamp_after_remote() {
    let me = ReplicaId(1);
    let mut st = ShardReplicaState::new(me, ConsistencyLevel::Eventual);
    let t0: u64 = kani::any(); kani::assume(t0 < (1 << 62));
    st.lamport_clock.time = t0;
    // remote delta with arbitrary stamp
    let rt: u64 = kani::any(); kani::assume(rt < (1 << 62));
    let rr: u64 = kani::any(); kani::assume(rr < 3);
    let rc = LamportClock { time: rt, replica_id: ReplicaId(rr) };
    let remote = ReplicationDelta::new("k".to_string(), ReplicatedValue::with_value(SDS::from_str("old"), rc), ReplicaId(rr));
    st.apply_remote_delta(remote.clone());
    let d = st.record_write("k".to_string(), SDS::from_str("new"), None);
    assert!(d.value.timestamp > rc);
    // a peer holding the remote value merges the new write: new must win
    let merged = remote.value.merge(&d.value);
    assert!(merged.get().map(|s| s.as_bytes() == b"new").unwrap_or(false));
}
