use redis_sim::streaming::{WalEntry, WalRotator, WalStore, WalFileWriter, WalFileReader, WalError};
use redis_sim::replication::lattice::*;
use redis_sim::replication::state::*;
use redis_sim::redis::SDS;
use crate::probe9::fake_cpuid;
use crate::probe2::stub_format;

static mut IMG: Vec<u8> = Vec::new();
#[derive(Clone)] pub struct IStore;
pub struct IW; pub struct IR;
impl WalFileWriter for IW { fn append(&mut self, _d: &[u8]) -> Result<u64, WalError> { Ok(0) } fn sync(&mut self) -> Result<(), WalError> { Ok(()) } fn size(&self) -> u64 { 0 } }
impl WalFileReader for IR { fn read_all(&mut self) -> Result<Vec<u8>, WalError> { unsafe { Ok((*std::ptr::addr_of!(IMG)).clone()) } } }
impl WalStore for IStore {
    type Writer = IW; type Reader = IR;
    fn create(&self, _n: &str) -> Result<IW, WalError> { Ok(IW) }
    fn open_read(&self, _n: &str) -> Result<IR, WalError> { Ok(IR) }
    fn list(&self) -> Result<Vec<String>, WalError> { Ok(vec!["wal-00000001.wal".to_string()]) }
    fn delete(&self, _n: &str) -> Result<(), WalError> { Ok(()) }
    fn exists(&self, _n: &str) -> Result<bool, WalError> { Ok(true) }
}

/// C11 core A: a WAL-only entry with arbitrary stamp must be returned whatever the segments' high-water mark is
#[kani::proof]
#[kani::unwind(20)]
#[kani::stub(alloc::fmt::format, stub_format)]
#[kani::stub(core::arch::x86_64::__cpuid_count, fake_cpuid)]
fn wal_filter_complete() {
    let ts: u64 = kani::any();
    let hw_a: u64 = kani::any(); let hw_b: u64 = kani::any();
    let high_water = [hw_a, hw_b].iter().map(|s| *s).max().unwrap_or(0);
    let payload = vec![7u8, 7, 7, 7];
    let e = WalEntry { checksum: crc32fast::hash(&payload), data: payload, timestamp: ts };
    let mut img = vec![b'R', b'W', b'A', b'L', 1, 0, 0, 0, 1, 0, 0, 0, 0, 0, 0, 0];
    img.extend_from_slice(&e.encode());
    unsafe { IMG = img; }
    let rot = WalRotator::new(IStore, 1 << 20).unwrap();
    let all = rot.recover_all_entries().unwrap();
    let kept = all.iter().filter(|x| x.timestamp >= high_water).count();
    // the entry is WAL-only (no segment contains it): it must survive the filter
    let ok = all.len() == 1 && kept == 1;
    std::mem::forget(all); std::mem::forget(rot); std::mem::forget(e);
    assert!(ok);
}
