use redis_sim::replication::lattice::*;
use redis_sim::replication::state::*;
use redis_sim::redis::{SDS, Command, CommandExecutor, RespValue, RedisList};
use verif_collections::HashMap;
use crate::h::{stub_interest, stub_is_enabled, stub_dispatch};

fn any_clock(maxr: u64) -> LamportClock {
    let t: u64 = kani::any(); let r: u64 = kani::any();
    kani::assume(r < maxr);
    LamportClock { time: t, replica_id: ReplicaId(r) }
}
fn sds1() -> SDS { let b: u8 = kani::any(); let mut data = [0u8; 23]; data[0] = b; SDS::Inline { len: 1, data } }
fn any_lww() -> LwwRegister<SDS> {
    let tomb: bool = kani::any();
    LwwRegister { value: if tomb { None } else { Some(sds1()) }, timestamp: any_clock(3), tombstone: tomb }
}
fn any_crdt() -> CrdtValue {
    if kani::any() { CrdtValue::Lww(any_lww()) } else {
        let mut h: HashMap<String, LwwRegister<SDS>> = HashMap::new();
        if kani::any() { h.insert("f".to_string(), any_lww()); }
        if kani::any() { h.insert("g".to_string(), any_lww()); }
        CrdtValue::Hash(h)
    }
}
fn any_rv() -> ReplicatedValue {
    ReplicatedValue { crdt: any_crdt(), vector_clock: None, expiry_ms: None, timestamp: any_clock(3), replication_factor: None }
}
fn field_obs(v: &ReplicatedValue, f: &str) -> (bool, u8) {
    match v.get_hash() { Some(h) => match h.get(f).and_then(|l| l.get()) { Some(s) => (true, s.as_bytes()[0]), None => (false, 0) }, None => (false, 0) }
}
fn obs_eq(a: &ReplicatedValue, b: &ReplicatedValue) -> bool {
    let va = a.get().map(|s| s.as_bytes()[0]); let vb = b.get().map(|s| s.as_bytes()[0]);
    va == vb && a.is_tombstone() == b.is_tombstone() && a.is_hash() == b.is_hash()
        && field_obs(a, "f") == field_obs(b, "f") && field_obs(a, "g") == field_obs(b, "g")
}

#[kani::proof]
#[kani::unwind(5)]
#[kani::stub(tracing_core::callsite::DefaultCallsite::interest, stub_interest)]
#[kani::stub(tracing::__macro_support::__is_enabled, stub_is_enabled)]
#[kani::stub(tracing_core::event::Event::dispatch, stub_dispatch)]
fn rv_assoc_values() {
    let a = any_rv(); let b = any_rv(); let c = any_rv();
    let l = a.merge(&b).merge(&c);
    let r = a.merge(&b.merge(&c));
    assert!(obs_eq(&l, &r));
}

#[kani::proof]
#[kani::unwind(5)]
fn gcounter_comm() {
    let mut x = GCounter::new(); let mut y = GCounter::new();
    let (a1, a2, b1, b2): (u32, u32, u32, u32) = (kani::any(), kani::any(), kani::any(), kani::any());
    if kani::any() { x.increment_by(ReplicaId(1), a1 as u64); }
    if kani::any() { x.increment_by(ReplicaId(2), a2 as u64); }
    if kani::any() { y.increment_by(ReplicaId(2), b2 as u64); }
    if kani::any() { y.increment_by(ReplicaId(1), b1 as u64); }
    let xy = x.merge(&y); let yx = y.merge(&x);
    assert!(xy.value() == yx.value());
    assert!(xy == yx);
}

#[kani::proof]
#[kani::unwind(6)]
fn list_range_ref() {
    let mut l = RedisList::new();
    let n: u8 = kani::any(); kani::assume(n <= 3);
    let mut i = 0u8; while i < n { let mut d = [0u8; 23]; d[0] = i; l.rpush(SDS::Inline { len: 1, data: d }); i += 1; }
    let start: isize = kani::any(); let stop: isize = kani::any();
    let got = l.range(start, stop);
    let len = n as i128; let mut s = start as i128; let mut e = stop as i128;
    if s < 0 { s += len; } if e < 0 { e += len; }
    if s < 0 { s = 0; }
    let exp_len: i128 = if s > e || s >= len { 0 } else { if e >= len { e = len - 1; } e - s + 1 };
    assert!(got.len() as i128 == exp_len);
    if exp_len > 0 { assert!(got[0].as_bytes()[0] as i128 == s); }
    std::mem::forget(got); std::mem::forget(l);
}

#[kani::proof]
#[kani::unwind(5)]
#[kani::stub(alloc::fmt::format, crate::probe2::stub_format)]
#[kani::stub(core::arch::x86_64::__cpuid_count, crate::probe9::fake_cpuid)]
#[kani::stub(parking_lot::raw_mutex::RawMutex::lock_slow, crate::probe6::pl_lock_slow)]
#[kani::stub(parking_lot::raw_mutex::RawMutex::unlock_slow, crate::probe6::pl_unlock_slow)]
#[kani::stub(tracing_core::callsite::DefaultCallsite::interest, stub_interest)]
#[kani::stub(tracing::__macro_support::__is_enabled, stub_is_enabled)]
#[kani::stub(tracing_core::event::Event::dispatch, stub_dispatch)]
fn exec_set_px_get() {
    let mut ex = CommandExecutor::verif_new_bare();
    let now: u64 = kani::any(); kani::assume(now < (1u64 << 40));
    ex.set_time(redis_sim::simulator::VirtualTime::from_millis(now));
    let px: i64 = kani::any();
    let cmd = Command::Set { key: "k".to_string(), value: SDS::from_str("v"), ex: None, px: Some(px), exat: None, pxat: None, nx: false, xx: false, get: false, keepttl: false };
    let r = ex.execute(&cmd);
    let is_err = matches!(r, RespValue::Error(_));
    if px <= 0 { assert!(is_err); }
    if !is_err {
        let dt: u64 = kani::any(); kani::assume(dt < (1u64 << 40));
        ex.set_time(redis_sim::simulator::VirtualTime::from_millis(now + dt));
        let g = ex.execute(&Command::Get("k".to_string()));
        let visible = matches!(g, RespValue::BulkString(Some(_)));
        assert!(visible == ((dt as i128) < (px as i128)));
        std::mem::forget(g);
    }
    std::mem::forget(r); std::mem::forget(ex);
}
