use redis_sim::streaming::WalEntry;
use crate::probe9::fake_cpuid;

/// decode with the length field fixed to 4 (payload + stamp + crc symbolic)
#[kani::proof]
#[kani::unwind(7)]
#[kani::stub(core::arch::x86_64::__cpuid_count, fake_cpuid)]
fn wal_decode_len4() {
    let mut bytes: [u8; 20] = kani::any();
    bytes[0] = 4; bytes[1] = 0; bytes[2] = 0; bytes[3] = 0;
    let r = WalEntry::decode(&bytes);
    if let Some((e, used)) = &r { assert!(*used == 20); assert!(e.data.len() == 4); }
    std::mem::forget(r);
}

/// crc alone on 4 symbolic bytes: two different single-bit-apart inputs never collide
#[kani::proof]
#[kani::unwind(7)]
#[kani::stub(core::arch::x86_64::__cpuid_count, fake_cpuid)]
fn crc_bitflip4() {
    let a: [u8; 4] = kani::any();
    let mut b = a;
    let pos: usize = kani::any(); kani::assume(pos < 4);
    let bit: u8 = kani::any(); kani::assume(bit < 8);
    b[pos] ^= 1 << bit;
    assert!(crc32fast::hash(&a) != crc32fast::hash(&b));
}
