use redis_sim::redis::{RespCodec, RespParser, SDS};
use redis_sim::replication::lattice::*;
use redis_sim::replication::state::*;
use redis_sim::streaming::WalEntry;
use verif_collections::HashMap;
use crate::probe9::fake_cpuid;
use crate::probe2::stub_format;
use crate::h::{stub_interest, stub_is_enabled, stub_dispatch};

/// RESP, concrete length text "2": "$2\r\n" + 4 symbolic bytes (payload + terminator)
#[kani::proof]
#[kani::unwind(10)]
#[kani::stub(alloc::fmt::format, stub_format)]
#[kani::stub(core::arch::x86_64::__cpuid_count, fake_cpuid)]
fn resp_bulk_menu_2() {
    let t: [u8; 4] = kani::any();
    let img = [b'$', b'2', b'\r', b'\n', t[0], t[1], t[2], t[3]];
    let mut buf = bytes::BytesMut::with_capacity(8);
    buf.extend_from_slice(&img);
    let r = RespCodec::parse(&mut buf);
    // a well-formed bulk string must be terminated by CRLF; anything else is a protocol error
    let ok = match &r { Ok(Some(_)) => t[2] == b'\r' && t[3] == b'\n', _ => true };
    std::mem::forget(r); std::mem::forget(buf);
    assert!(ok);
}

/// WAL: flip one bit outside the length field of encode(e) (payload 3 bytes): decode is None or returns e unchanged
#[kani::proof]
#[kani::unwind(8)]
#[kani::stub(core::arch::x86_64::__cpuid_count, fake_cpuid)]
fn wal_bitflip_fixedlen() {
    let payload: [u8; 3] = kani::any();
    let ts: u64 = kani::any();
    let data = payload.to_vec();
    let e = WalEntry { checksum: crc32fast::hash(&data), data, timestamp: ts };
    let mut img = e.encode();
    let pos: usize = kani::any(); kani::assume(pos >= 4 && pos < 19);
    let bit: u8 = kani::any(); kani::assume(bit < 8);
    img[pos] ^= 1u8 << bit;
    let r = WalEntry::decode(&img);
    let ok = match &r { Some((d, _)) => d.timestamp == ts && d.data[0] == payload[0] && d.data[1] == payload[1] && d.data[2] == payload[2], None => true };
    std::mem::forget(r); std::mem::forget(img); std::mem::forget(e);
    assert!(ok);
}

fn clk(t: u64, r: u64) -> LamportClock { LamportClock { time: t, replica_id: ReplicaId(r) } }
fn lww(v: u8, c: LamportClock) -> LwwRegister<SDS> { let mut d = [0u8; 23]; d[0] = v; LwwRegister { value: Some(SDS::Inline { len: 1, data: d }), timestamp: c, tombstone: false } }
fn rvh(v: u8, c: LamportClock) -> ReplicatedValue { let mut h: HashMap<String, LwwRegister<SDS>> = HashMap::new(); h.insert("f".to_string(), lww(v, c)); ReplicatedValue { crdt: CrdtValue::Hash(h), vector_clock: None, expiry_ms: None, timestamp: c, replication_factor: None } }
fn rvl(v: u8, c: LamportClock) -> ReplicatedValue { ReplicatedValue { crdt: CrdtValue::Lww(lww(v, c)), vector_clock: None, expiry_ms: None, timestamp: c, replication_factor: None } }
fn has_f(v: &ReplicatedValue) -> bool { v.get_hash().map(|h| h.get("f").is_some()).unwrap_or(false) }

/// associativity, kinds (Hash, Lww, Hash), payloads concrete, only the three stamps symbolic
#[kani::proof]
#[kani::unwind(6)]
#[kani::stub(tracing_core::callsite::DefaultCallsite::interest, stub_interest)]
#[kani::stub(tracing::__macro_support::__is_enabled, stub_is_enabled)]
#[kani::stub(tracing_core::event::Event::dispatch, stub_dispatch)]
fn assoc_hlh_stamps() {
    let (ta, tb, tc): (u64, u64, u64) = (kani::any(), kani::any(), kani::any());
    let a = rvh(1, clk(ta, 0)); let b = rvl(2, clk(tb, 1)); let c = rvh(3, clk(tc, 2));
    let l = a.merge(&b).merge(&c);
    let r = a.merge(&b.merge(&c));
    let ok = l.is_hash() == r.is_hash() && has_f(&l) == has_f(&r) && l.get().map(|s| s.as_bytes()[0]) == r.get().map(|s| s.as_bytes()[0])
        && l.get_hash().and_then(|h| h.get("f")).and_then(|x| x.get()).map(|s| s.as_bytes()[0]) == r.get_hash().and_then(|h| h.get("f")).and_then(|x| x.get()).map(|s| s.as_bytes()[0]);
    std::mem::forget(a); std::mem::forget(b); std::mem::forget(c); std::mem::forget(l); std::mem::forget(r);
    assert!(ok);
}
