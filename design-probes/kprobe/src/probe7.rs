use redis_sim::streaming::{ObjectStore, ObjectMeta, ListResult, StreamingPersistence, WriteBufferConfig, SimulatedClock, StreamingClock, StreamingTimestamp};
use redis_sim::replication::lattice::*;
use redis_sim::replication::state::*;
use redis_sim::redis::SDS;
use std::future::Future;
use std::pin::Pin;
use std::io::{Result as IoResult, Error, ErrorKind};
use std::sync::Arc;
use std::task::{Context, Poll, RawWaker, RawWakerVTable, Waker};

static mut FAIL_GET: bool = false;
#[derive(Clone)]
pub struct FStore;
impl ObjectStore for FStore {
    fn put<'a>(&'a self, _k: &'a str, _d: &'a [u8]) -> Pin<Box<dyn Future<Output = IoResult<()>> + Send + 'a>> { Box::pin(async { Err(Error::new(ErrorKind::Other, "x")) }) }
    fn get<'a>(&'a self, _k: &'a str) -> Pin<Box<dyn Future<Output = IoResult<Vec<u8>>> + Send + 'a>> {
        Box::pin(async { if unsafe { FAIL_GET } { Err(Error::new(ErrorKind::Other, "x")) } else { Err(Error::new(ErrorKind::NotFound, "nf")) } })
    }
    fn exists<'a>(&'a self, _k: &'a str) -> Pin<Box<dyn Future<Output = IoResult<bool>> + Send + 'a>> { Box::pin(async { Ok(false) }) }
    fn delete<'a>(&'a self, _k: &'a str) -> Pin<Box<dyn Future<Output = IoResult<()>> + Send + 'a>> { Box::pin(async { Ok(()) }) }
    fn list<'a>(&'a self, _p: &'a str, _c: Option<&'a str>) -> Pin<Box<dyn Future<Output = IoResult<ListResult>> + Send + 'a>> { Box::pin(async { Ok(ListResult::default()) }) }
    fn rename<'a>(&'a self, _f: &'a str, _t: &'a str) -> Pin<Box<dyn Future<Output = IoResult<()>> + Send + 'a>> { Box::pin(async { Ok(()) }) }
    fn head<'a>(&'a self, _k: &'a str) -> Pin<Box<dyn Future<Output = IoResult<ObjectMeta>> + Send + 'a>> { Box::pin(async { Err(Error::new(ErrorKind::NotFound, "nf")) }) }
}
#[derive(Clone)]
pub struct Clk;
impl StreamingClock for Clk { fn now(&self) -> StreamingTimestamp { StreamingTimestamp(0) } }

fn noop_waker() -> Waker {
    fn clone(_: *const ()) -> RawWaker { RawWaker::new(std::ptr::null(), &VT) }
    fn noop(_: *const ()) {}
    static VT: RawWakerVTable = RawWakerVTable::new(clone, noop, noop, noop);
    unsafe { Waker::from_raw(RawWaker::new(std::ptr::null(), &VT)) }
}
fn block_on<F: Future>(f: F) -> F::Output {
    let mut f = Box::pin(f);
    let w = noop_waker();
    let mut cx = Context::from_waker(&w);
    let mut i = 0;
    loop { if let Poll::Ready(v) = f.as_mut().poll(&mut cx) { return v; } i += 1; kani::assume(i < 3); }
}

#[kani::proof]
#[kani::unwind(6)]
#[kani::stub(alloc::fmt::format, crate::probe2::stub_format)]
fn flush_keeps_buffer_on_error() {
    let cfg = WriteBufferConfig { flush_interval: std::time::Duration::from_millis(250), max_size_bytes: 1 << 20, max_deltas: 100, backpressure_threshold_bytes: 1 << 22, compression_enabled: false };
    let mut p = block_on(StreamingPersistence::with_clock(Arc::new(FStore), "p".to_string(), 1, cfg, Clk)).ok().unwrap();
    let t: u64 = kani::any();
    let c = LamportClock { time: t, replica_id: ReplicaId(1) };
    let d = ReplicationDelta::new("k".to_string(), ReplicatedValue::with_value(SDS::from_str("v"), c), ReplicaId(1));
    assert!(p.push(d).is_ok());
    unsafe { FAIL_GET = kani::any(); }
    let r = block_on(p.flush());
    if r.is_err() { assert!(p.pending_count() == 1); }
    std::mem::forget(p);
}
