use redis_sim::redis::{RespCodec, RespParser, SDS};
use redis_sim::replication::lattice::*;
use redis_sim::streaming::{WalEntry, WalRotator};
use crate::probe9::fake_cpuid;
use crate::probe2::{stub_format, MStore};

#[kani::proof]
#[kani::unwind(9)]
#[kani::stub(alloc::fmt::format, stub_format)]
#[kani::stub(core::arch::x86_64::__cpuid_count, fake_cpuid)]
fn resp_bulk_7() {
    let mut bytes: [u8; 7] = kani::any();
    bytes[0] = b'$';
    let len: usize = kani::any();
    kani::assume(len >= 1 && len <= 7);
    let mut buf = bytes::BytesMut::with_capacity(8);
    buf.extend_from_slice(&bytes[..len]);
    let r = RespCodec::parse(&mut buf);
    std::mem::forget(r); std::mem::forget(buf);
}

#[kani::proof]
#[kani::unwind(9)]
#[kani::stub(alloc::fmt::format, stub_format)]
fn respparser_bulk_7() {
    let mut bytes: [u8; 7] = kani::any();
    bytes[0] = b'$';
    let len: usize = kani::any();
    kani::assume(len >= 1 && len <= 7);
    let r = RespParser::parse(&bytes[..len]);
    std::mem::forget(r);
}

/// C08 kernel: after observing any remote stamp, the next local LWW write supersedes it on every peer.
#[kani::proof]
#[kani::unwind(4)]
fn lww_write_after_observe() {
    let me = ReplicaId(1);
    let mut clock = LamportClock { time: kani::any(), replica_id: me };
    kani::assume(clock.time < (1 << 62));
    let rc = LamportClock { time: kani::any(), replica_id: ReplicaId(kani::any()) };
    kani::assume(rc.time < (1 << 62));
    let mut d = [0u8; 23]; d[0] = kani::any();
    let remote: LwwRegister<SDS> = LwwRegister { value: Some(SDS::Inline { len: 1, data: d }), timestamp: rc, tombstone: false };
    clock.update(&rc);
    let mut local = remote.clone();
    let mut n = [0u8; 23]; n[0] = kani::any();
    local.set(SDS::Inline { len: 1, data: n }, &mut clock);
    assert!(local.timestamp > rc);
    let m = remote.merge(&local);
    assert!(m.get().unwrap().as_bytes()[0] == n[0]);
    std::mem::forget(m); std::mem::forget(local); std::mem::forget(remote);
}

#[kani::proof]
#[kani::unwind(24)]
#[kani::stub(core::arch::x86_64::__cpuid_count, fake_cpuid)]
fn wal_decode_20() {
    let bytes: [u8; 20] = kani::any();
    let r = WalEntry::decode(&bytes);
    if let Some((e, used)) = &r {
        assert!(*used <= 20);
        assert!(e.data.len() + 16 == *used);
    }
    std::mem::forget(r);
}

/// C10 kernel: flip one bit anywhere in encode(e): decode is None or returns e unchanged
#[kani::proof]
#[kani::unwind(24)]
#[kani::stub(core::arch::x86_64::__cpuid_count, fake_cpuid)]
fn wal_bitflip() {
    let payload: [u8; 3] = kani::any();
    let ts: u64 = kani::any();
    let data = payload.to_vec();
    let e = WalEntry { checksum: crc32fast::hash(&data), data, timestamp: ts };
    let mut img = e.encode();
    let pos: usize = kani::any(); kani::assume(pos < img.len());
    let bit: u8 = kani::any(); kani::assume(bit < 8);
    img[pos] ^= 1u8 << bit;
    let r = WalEntry::decode(&img);
    if let Some((d, _)) = &r {
        assert!(d.timestamp == e.timestamp);
        assert!(d.data.len() == 3 && d.data[0] == payload[0] && d.data[1] == payload[1] && d.data[2] == payload[2]);
    }
    std::mem::forget(r); std::mem::forget(img); std::mem::forget(e);
}
