use redis_sim::redis::{RespCodec, RespParser};
use crate::probe9::fake_cpuid;
use crate::probe2::stub_format;

#[kani::proof]
#[kani::unwind(7)]
#[kani::stub(alloc::fmt::format, stub_format)]
#[kani::stub(core::arch::x86_64::__cpuid_count, fake_cpuid)]
fn resp_bulk_len5() {
    let mut bytes: [u8; 5] = kani::any();
    bytes[0] = b'$';
    let mut buf = bytes::BytesMut::with_capacity(8);
    buf.extend_from_slice(&bytes);
    let r = RespCodec::parse(&mut buf);
    std::mem::forget(r); std::mem::forget(buf);
}

#[kani::proof]
#[kani::unwind(7)]
#[kani::stub(alloc::fmt::format, stub_format)]
fn respparser_bulk_len5() {
    let mut bytes: [u8; 5] = kani::any();
    bytes[0] = b'$';
    let r = RespParser::parse(&bytes);
    std::mem::forget(r);
}
