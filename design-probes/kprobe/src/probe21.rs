use redis_sim::streaming::WalEntry;
use redis_sim::replication::lattice::*;
use redis_sim::replication::state::*;
use redis_sim::redis::SDS;
use crate::probe9::fake_cpuid;

/// C14 core: Lww ReplicationDelta -> WalEntry::from_delta -> encode -> decode -> to_delta, fields equal
#[kani::proof]
#[kani::unwind(12)]
#[kani::stub(alloc::fmt::format, crate::probe2::stub_format)]
#[kani::stub(core::arch::x86_64::__cpuid_count, fake_cpuid)]
fn wal_delta_roundtrip() {
    let t: u64 = kani::any(); let r: u64 = kani::any();
    let c = LamportClock { time: t, replica_id: ReplicaId(r) };
    let mut d = [0u8; 23]; d[0] = kani::any();
    let exp: Option<u64> = kani::any();
    let mut v = ReplicatedValue::with_value(SDS::Inline { len: 1, data: d }, c);
    v.expiry_ms = exp;
    let delta = ReplicationDelta::new("k".to_string(), v, ReplicaId(r));
    let e = WalEntry::from_delta(&delta, t).unwrap();
    let img = e.encode();
    let back = WalEntry::decode(&img);
    let ok = match &back {
        Some((e2, used)) => *used == img.len() && match e2.to_delta() {
            Ok(d2) => { let ok = d2.key == "k" && d2.value.timestamp == c && d2.value.expiry_ms == exp && d2.source_replica == ReplicaId(r)
                && d2.value.get().map(|s| s.as_bytes()[0]) == Some(d[0]) && !d2.value.is_tombstone(); std::mem::forget(d2); ok }
            Err(_) => false },
        None => false };
    std::mem::forget(back); std::mem::forget(img); std::mem::forget(e); std::mem::forget(delta);
    assert!(ok);
}
