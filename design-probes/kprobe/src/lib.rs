#![allow(unused)]
#[cfg(kani)]
pub mod h {
    use redis_sim::replication::lattice::*;
    use redis_sim::replication::state::*;
    use redis_sim::redis::SDS;

    fn any_clock() -> LamportClock {
        LamportClock { time: kani::any(), replica_id: ReplicaId(kani::any()) }
    }
    fn any_sds2() -> SDS {
        let len: u8 = kani::any();
        kani::assume(len <= 2);
        let mut data = [0u8; 23];
        data[0] = kani::any();
        data[1] = kani::any();
        if len < 2 { data[1] = 0; }
        if len < 1 { data[0] = 0; }
        SDS::Inline { len, data }
    }
    fn any_lww() -> LwwRegister<SDS> {
        let tomb: bool = kani::any();
        let has: bool = kani::any();
        LwwRegister { value: if has { Some(any_sds2()) } else { None }, timestamp: any_clock(), tombstone: tomb }
    }
    fn any_rv_lww() -> ReplicatedValue {
        ReplicatedValue {
            crdt: CrdtValue::Lww(any_lww()),
            vector_clock: None,
            expiry_ms: kani::any(),
            timestamp: any_clock(),
            replication_factor: kani::any(),
        }
    }
    fn obs_eq(a: &ReplicatedValue, b: &ReplicatedValue) -> bool {
        let va = a.get().map(|s| s.as_bytes().to_vec());
        let vb = b.get().map(|s| s.as_bytes().to_vec());
        va == vb && a.is_tombstone() == b.is_tombstone() && a.expiry_ms == b.expiry_ms
            && a.timestamp == b.timestamp && a.replication_factor == b.replication_factor
    }

    #[kani::proof]
    #[kani::unwind(4)]
    #[kani::stub(tracing_core::callsite::DefaultCallsite::interest, stub_interest)]
    #[kani::stub(tracing::__macro_support::__is_enabled, stub_is_enabled)]
    #[kani::stub(tracing_core::event::Event::dispatch, stub_dispatch)]
    fn rv_lww_commutative() {
        let a = any_rv_lww();
        let b = any_rv_lww();
        let ab = a.merge(&b);
        let ba = b.merge(&a);
        assert!(obs_eq(&ab, &ba));
    }

    #[kani::proof]
    #[kani::unwind(4)]
    fn lww_only() {
        let a = any_lww();
        let b = any_lww();
        let ab = a.merge(&b);
        let ba = b.merge(&a);
        assert!(ab.timestamp == ba.timestamp);
    }
    #[kani::proof]
    #[kani::unwind(4)]
    fn crdt_trymerge() {
        let a = CrdtValue::Lww(any_lww());
        let b = CrdtValue::Lww(any_lww());
        let ab = a.try_merge(&b);
        assert!(ab.is_ok());
    }

    pub fn stub_interest(_c: &tracing_core::callsite::DefaultCallsite) -> tracing_core::subscriber::Interest { tracing_core::subscriber::Interest::never() }
    pub fn stub_is_enabled(_m: &'static tracing_core::Metadata<'static>, _i: tracing_core::subscriber::Interest) -> bool { false }
    pub fn stub_dispatch<'a>(_m: &'static tracing_core::Metadata<'static>, _f: &'a tracing_core::field::ValueSet<'_>) where 'a: 'a {}
    #[kani::proof]
    #[kani::stub(tracing_core::callsite::DefaultCallsite::interest, stub_interest)]
    #[kani::stub(tracing::__macro_support::__is_enabled, stub_is_enabled)]
    #[kani::stub(tracing_core::event::Event::dispatch, stub_dispatch)]
    fn trc() {
        let x: u8 = kani::any();
        if x == 3 { tracing::warn!("hello {}", x); }
        assert!(x == x);
    }
    #[kani::proof]
    #[kani::unwind(4)]
    #[kani::stub(tracing_core::callsite::DefaultCallsite::interest, stub_interest)]
    #[kani::stub(tracing::__macro_support::__is_enabled, stub_is_enabled)]
    #[kani::stub(tracing_core::event::Event::dispatch, stub_dispatch)]
    fn mwt() {
        let a = CrdtValue::Lww(any_lww());
        let b = CrdtValue::Lww(any_lww());
        let ab = a.merge_with_timestamps(&b, &any_clock(), &any_clock());
        assert!(ab.is_lww());
    }
    #[kani::proof]
    #[kani::unwind(4)]
    fn vecq() {
        let a = any_sds2();
        let b = any_sds2();
        let va = a.as_bytes().to_vec();
        let vb = b.as_bytes().to_vec();
        assert!((va == vb) == (a == b));
    }

    #[kani::proof]
    #[kani::unwind(4)]
    #[kani::stub(tracing_core::callsite::DefaultCallsite::interest, stub_interest)]
    #[kani::stub(tracing::__macro_support::__is_enabled, stub_is_enabled)]
    #[kani::stub(tracing_core::event::Event::dispatch, stub_dispatch)]
    fn rv_lww_idempotent() {
        let a = any_rv_lww();
        let aa = a.merge(&a);
        assert!(obs_eq(&aa, &a));
    }
}
#[cfg(kani)] pub mod probe2;
#[cfg(kani)] mod probe3;
#[cfg(kani)] pub mod probe4;
#[cfg(kani)] mod probe5;
#[cfg(kani)] pub mod probe6;
#[cfg(kani)] mod probe7;
#[cfg(kani)] mod probe8;
#[cfg(kani)] pub mod probe9;
#[cfg(kani)] mod probe10;
#[cfg(kani)] mod probe11;
#[cfg(kani)] mod probe12;
#[cfg(kani)] mod probe13;
#[cfg(kani)] mod probe14;
#[cfg(kani)] mod probe15;
#[cfg(kani)] mod probe16;
#[cfg(kani)] mod probe17;
#[cfg(kani)] mod probe18;
#[cfg(kani)] mod probe19;
#[cfg(kani)] mod probe20;
#[cfg(kani)] mod probe21;
