#[kani::proof]
#[kani::unwind(4)]
fn tk_oneshot() {
    let (tx, mut rx) = tokio::sync::oneshot::channel::<u8>();
    let v: u8 = kani::any();
    let _ = tx.send(v);
    assert!(rx.try_recv() == Ok(v));
}
#[kani::proof]
#[kani::unwind(4)]
#[kani::stub(parking_lot::raw_mutex::RawMutex::lock_slow, crate::probe6::pl_lock_slow)]
#[kani::stub(parking_lot::raw_mutex::RawMutex::unlock_slow, crate::probe6::pl_unlock_slow)]
fn tk_mpsc() {
    let (_tx, _rx) = tokio::sync::mpsc::channel::<u8>(4);
}
#[kani::proof]
#[kani::unwind(4)]
#[kani::stub(parking_lot::raw_mutex::RawMutex::lock_slow, crate::probe6::pl_lock_slow)]
#[kani::stub(parking_lot::raw_mutex::RawMutex::unlock_slow, crate::probe6::pl_unlock_slow)]
fn tk_unbounded() {
    let (_tx, _rx) = tokio::sync::mpsc::unbounded_channel::<u8>();
}
